// Engine `fsim`: sbeppc (real main.cpp and all its headers, built from /repo
// with -Dmain=sbeppc_main) running in-process over a simulated file layer.
//
// Seam: the libc entry points libstdc++'s fstream / std::filesystem reach
// through the PLT (fopen64, fclose, read, write, writev, lseek64, mkdir, stat,
// lstat, open, openat) are defined by this executable (linked -rdynamic), so
// they interpose for libstdc++ and the sbeppc objects alike. Simulated files
// are backed by memfd descriptors: libstdc++ gets a genuine FILE*/fd, but the
// namespace, existence and every call outcome belong to the simulator.
//
// Real: sbeppc (all of it), libstdc++ streams and std::filesystem, pugixml, fmt.
// Stub: the file-system namespace and the outcome of every file call (SimFS),
// the stored bytes of the input files (storage faults), argv, the heap layout.
#include "../sim/kernel.hpp"

#include <cassert>
#include <cerrno>
#include <climits>
#include <csetjmp>
#include <csignal>
#include <cstdarg>
#include <dlfcn.h>
#include <exception>
#include <fcntl.h>
#include <filesystem>
#include <sys/mman.h>
#include <sys/resource.h>
#include <sys/stat.h>
#include <sys/syscall.h>
#include <sys/time.h>
#include <sys/uio.h>
#include <typeinfo>
#include <cxxabi.h>

int sbeppc_main(int argc, char** argv);

namespace
{
using sim::Op;
using sim::Plan;
using sim::Result;
using u64 = std::uint64_t;

// ------------------------------------------------------------------ SimFS
struct Node
{
    bool dir = false;
    std::string data;
    bool created_by_run = false;
    bool readonly = false; // mode 0444: opening for writing fails with EACCES
    std::string link;      // non-empty: a symbolic link with this target (absolute, or relative to its directory)
    int endless = 0;       // 1 / 2: a character device or fed FIFO that never reports end of file (zeros / blanks), like /dev/zero
    long long mtime = 1740000000; // simulated modification time (what stat reports); files of the corpus are older than every run
};

enum Kind
{
    K_MKDIR,
    K_OPENW,
    K_WRITE,
    K_CLOSEW,
    K_OPENR,
    K_READ,
    K_CLOSER,
    K_STAT,
    K_RENAME,
    K_N
};
const char* kKindName[] = {"mkdir", "open_w", "write", "close_w", "open_r", "read", "close_r", "stat", "rename"};

struct FaultSpec
{
    int kind = 0;
    long ordinal = 0; // among calls of that kind in this run
    std::string outcome;
    long arg = 0;
    bool fired = false;
};

struct OpenFile
{
    std::string path;
    bool writing = false;
    bool is_dir = false;
    int sticky_errno = 0;
    bool dirseek_max = true;
    long long dirpos = 0;
    int endless = 0;
};

struct TraceEntry
{
    int kind;
    std::string path;
    long len;
};

struct Sim
{
    std::map<std::string, Node> fs;
    std::map<int, OpenFile> open;
    // per run
    bool active = false;
    std::vector<FaultSpec> faults;
    long yank_at = -1;
    long kill_at = -1; // the process dies (SIGKILL, power loss) when it makes call number kill_at + 1
    bool killed = false;
    long diskfull = -1;
    long total_written = 0;
    long counts[K_N] = {0};
    long call_index = 0;
    std::vector<TraceEntry> trace;
    std::vector<std::string> fired_hard, fired_soft; // descriptions
    bool fired_hard_output = false;
    bool fired_hard_input = false;
    long bypass = 0;
    bool dirseek_max = true;
    std::string cwd = "/sim";
    // simulated wall clock (seconds since the epoch): the only clock sbeppc can read while it runs
    long long now = 1750000000;
    long clock_reads = 0;
    // persistent condition of the environment (no search permission, name too long, symlink loop...):
    // every mkdir/stat/lstat/open on a path at or below cond_prefix fails with cond_errno
    std::string cond_prefix;
    int cond_errno = 0;
    long cond_fired = 0;
};
Sim g;

std::string norm(const char* p)
{
    std::string s = p ? p : "";
    if(s.empty() || s[0] != '/') s = g.cwd + "/" + s;
    std::vector<std::string> parts;
    std::size_t i = 0;
    while(i < s.size())
    {
        std::size_t j = s.find('/', i);
        if(j == std::string::npos) j = s.size();
        std::string c = s.substr(i, j - i);
        // ".." stays: what it means depends on the symbolic links before it (resolve())
        if(!c.empty() && c != ".") parts.push_back(c);
        i = j + 1;
    }
    std::string out;
    for(auto& c : parts) out += "/" + c;
    return out.empty() ? "/" : out;
}

bool in_sim(const std::string& abs)
{
    return abs == "/sim" || abs.rfind("/sim/", 0) == 0;
}

std::string parent_of(const std::string& abs)
{
    auto k = abs.rfind('/');
    return k == 0 ? "/" : abs.substr(0, k);
}

// Path resolution the way the kernel does it, component by component: a symbolic link is replaced by
// its target (every component but the last always, the last one if follow_last), ".." goes to the
// parent of whatever the components before it resolved to. Returns "" on a loop (ELOOP).
std::string resolve(std::string abs, bool follow_last = true)
{
    std::vector<std::string> todo, done;
    auto split = [](const std::string& s, std::vector<std::string>& out) {
        std::vector<std::string> tmp;
        std::size_t i = 0;
        while(i < s.size())
        {
            std::size_t j = s.find('/', i);
            if(j == std::string::npos) j = s.size();
            if(j > i && s.compare(i, j - i, ".") != 0) tmp.push_back(s.substr(i, j - i));
            i = j + 1;
        }
        out.insert(out.begin(), tmp.begin(), tmp.end());
    };
    split(abs, todo);
    int hops = 0;
    while(!todo.empty())
    {
        std::string c = todo.front();
        todo.erase(todo.begin());
        if(c == "..")
        {
            if(!done.empty()) done.pop_back();
            continue;
        }
        std::string cand;
        for(auto& d : done) cand += "/" + d;
        cand += "/" + c;
        auto it = g.fs.find(cand);
        const bool last = todo.empty();
        if(it != g.fs.end() && !it->second.link.empty() && (!last || follow_last))
        {
            if(++hops > 40) return "";
            const std::string& t = it->second.link;
            if(t[0] == '/') done.clear();
            split(t, todo);
            continue;
        }
        done.push_back(c);
    }
    std::string out;
    for(auto& d : done) out += "/" + d;
    return out.empty() ? "/" : out;
}

// errno if the parent chain is unusable, else 0
int check_parent(const std::string& abs)
{
    // NAME_MAX / PATH_MAX of an ordinary Linux file system
    if(abs.size() >= 4096) return ENAMETOOLONG;
    for(std::size_t i = 1, j; i <= abs.size(); i = j + 1)
    {
        j = abs.find('/', i);
        if(j == std::string::npos) j = abs.size();
        if(j - i > 255)
        {
            sim::stats().count("fault.fired.natural.name_too_long");
            return ENAMETOOLONG;
        }
    }
    std::string par = parent_of(abs);
    if(par == "/") return 0;
    auto it = g.fs.find(par);
    if(it == g.fs.end())
    {
        // distinguish ENOENT from ENOTDIR higher up
        std::string q = par;
        while(q != "/" && g.fs.find(q) == g.fs.end()) q = parent_of(q);
        if(q != "/" && !g.fs[q].dir) return ENOTDIR;
        return ENOENT;
    }
    return it->second.dir ? 0 : ENOTDIR;
}

struct Real
{
    FILE* (*fopen64)(const char*, const char*);
    int (*fclose)(FILE*);
    void (*exit)(int);
    int (*stat)(const char*, struct stat*);
    int (*lstat)(const char*, struct stat*);
    int (*mkdir)(const char*, mode_t);
    int (*open)(const char*, int, ...);
    int (*openat)(int, const char*, int, ...);
    int (*rename)(const char*, const char*);
    int (*unlink)(const char*);
} real;

void init_real()
{
    if(real.fopen64) return;
    real.fopen64 = (decltype(real.fopen64))dlsym(RTLD_NEXT, "fopen64");
    real.fclose = (decltype(real.fclose))dlsym(RTLD_NEXT, "fclose");
    real.exit = (decltype(real.exit))dlsym(RTLD_NEXT, "exit");
    real.stat = (decltype(real.stat))dlsym(RTLD_NEXT, "stat");
    real.lstat = (decltype(real.lstat))dlsym(RTLD_NEXT, "lstat");
    real.mkdir = (decltype(real.mkdir))dlsym(RTLD_NEXT, "mkdir");
    real.open = (decltype(real.open))dlsym(RTLD_NEXT, "open");
    real.openat = (decltype(real.openat))dlsym(RTLD_NEXT, "openat");
    real.rename = (decltype(real.rename))dlsym(RTLD_NEXT, "rename");
    real.unlink = (decltype(real.unlink))dlsym(RTLD_NEXT, "unlink");
}

bool under_condition(const std::string& abs)
{
    if(!g.cond_errno || g.cond_prefix.empty()) return false;
    if(abs == g.cond_prefix || abs.rfind(g.cond_prefix + "/", 0) == 0)
    {
        g.cond_fired++;
        return true;
    }
    return false;
}

// Returns the fault to apply to this call (or nullptr) and records the call.
void die_here(); // the simulated process ends at this very call: nothing is flushed, no destructor runs
extern volatile sig_atomic_t g_in_run;
FaultSpec* on_call(int kind, const std::string& path, long len = 0)
{
    if(g.kill_at >= 0 && g.call_index >= g.kill_at && g_in_run) die_here();
    long ord = g.counts[kind]++;
    g.call_index++;
    g.trace.push_back({kind, path, len});
    for(auto& f : g.faults)
        if(!f.fired && f.kind == kind && f.ordinal == ord) return &f;
    return nullptr;
}

bool yanked()
{
    return g.yank_at >= 0 && g.call_index > g.yank_at;
}

int errno_of(const std::string& name)
{
    static const std::map<std::string, int> m = {{"EACCES", EACCES}, {"ENOSPC", ENOSPC}, {"EROFS", EROFS}, {"ENOTDIR", ENOTDIR}, {"EIO", EIO},
                                                 {"EMFILE", EMFILE}, {"EISDIR", EISDIR}, {"EDQUOT", EDQUOT}, {"EFBIG", EFBIG}, {"ENOENT", ENOENT},
                                                 {"EINTR", EINTR}, {"ENOMEM", ENOMEM}, {"ENAMETOOLONG", ENAMETOOLONG}, {"ELOOP", ELOOP}};
    auto it = m.find(name);
    return it == m.end() ? EIO : it->second;
}

// A failed *read* is an input failure only when it hits an input file (the schema, an include target). Reading a
// file below the output root - a program that compares what is there with what it is about to write - may fail
// without the statement demanding anything: the caller may treat the file as different and rewrite it. Such a
// fault is soft: either ending is allowed, and exit 0 still implies complete, byte-identical files.
void note_read_failure(const std::string& path, const std::string& what);
void note_hard(const std::string& what, bool output_side)
{
    g.fired_hard.push_back(what);
    if(output_side)
        g.fired_hard_output = true;
    else
        g.fired_hard_input = true;
}

void note_read_failure(const std::string& path, const std::string& what)
{
    if(path.rfind("/sim/in/", 0) == 0 || path == "/sim/in")
        note_hard(what, false);
    else
    {
        g.fired_soft.push_back(what + " (not an input file)");
        sim::stats().count("probe.read_fault_on_a_file_that_is_not_an_input");
    }
}

ssize_t raw_write(int fd, const void* p, size_t n)
{
    return syscall(SYS_write, fd, p, n);
}
ssize_t raw_read(int fd, void* p, size_t n)
{
    return syscall(SYS_read, fd, p, n);
}

// the simulated write path: `data` is the concatenated payload
ssize_t sim_write(int fd, OpenFile& of, const char* data, size_t len)
{
    FaultSpec* f = on_call(K_WRITE, of.path, (long)len);
    auto apply = [&](size_t k) -> ssize_t {
        // k bytes reach the medium
        if(k)
        {
            g.fs[of.path].data.append(data, k);
            g.fs[of.path].mtime = g.now;
            raw_write(fd, data, k);
            g.total_written += (long)k;
        }
        return (ssize_t)k;
    };
    if(of.sticky_errno)
    {
        note_hard("write(" + of.path + ") sticky " + std::to_string(of.sticky_errno), true);
        sim::stats().count("fault.fired.write.sticky_error");
        errno = of.sticky_errno;
        return -1;
    }
    if(yanked())
    {
        note_hard("write(" + of.path + ") after yank", true);
        sim::stats().count("fault.fired.yank.write");
        errno = EIO;
        return -1;
    }
    if(g.diskfull >= 0 && g.total_written + (long)len > g.diskfull)
    {
        size_t room = g.total_written >= g.diskfull ? 0 : (size_t)(g.diskfull - g.total_written);
        sim::stats().count("fault.fired.diskfull");
        note_hard("write(" + of.path + ") disk full", true);
        if(room == 0)
        {
            errno = ENOSPC;
            return -1;
        }
        of.sticky_errno = ENOSPC;
        return apply(room);
    }
    if(f)
    {
        f->fired = true;
        const std::string& o = f->outcome;
        sim::stats().count("fault.fired.write." + o.substr(0, o.find(':')));
        if(o.rfind("ERR:", 0) == 0)
        {
            note_hard("write(" + of.path + ") " + o, true);
            errno = errno_of(o.substr(4));
            return -1;
        }
        if(o.rfind("PARTIAL:", 0) == 0)
        {
            // j bytes transferred, then the error surfaces on the next call
            size_t j = len <= 1 ? 0 : (size_t)std::min<long>(std::max<long>(f->arg, 1), (long)len - 1);
            note_hard("write(" + of.path + ") " + o + " after " + std::to_string(j), true);
            if(j == 0)
            {
                errno = errno_of(o.substr(8));
                return -1;
            }
            of.sticky_errno = errno_of(o.substr(8));
            return apply(j);
        }
        if(o == "SHORT")
        {
            size_t j = len <= 1 ? len : (size_t)std::min<long>(std::max<long>(f->arg, 1), (long)len - 1);
            g.fired_soft.push_back("write(" + of.path + ") short " + std::to_string(j));
            return apply(j);
        }
        if(o == "EINTR")
        {
            g.fired_soft.push_back("write(" + of.path + ") EINTR");
            errno = EINTR;
            return -1;
        }
    }
    return apply(len);
}
} // namespace

// ------------------------------------------------------------ interposers
extern "C"
{
// Core of every simulated open: returns a memfd registered in g.open, or -1 with errno set.
static int sim_open_fd(const std::string& abs, bool wr, bool trunc, bool append)
{
    FaultSpec* f = on_call(wr ? K_OPENW : K_OPENR, abs);
    if(under_condition(abs))
    {
        if(wr)
            note_hard(std::string("open(") + abs + ") environment condition errno " + std::to_string(g.cond_errno), true);
        else
            note_read_failure(abs, std::string("open(") + abs + ") environment condition errno " + std::to_string(g.cond_errno));
        sim::stats().count("fault.fired.condition.open");
        errno = g.cond_errno;
        return -1;
    }
    if(yanked())
    {
        if(wr)
            note_hard(std::string("open(") + abs + ") after yank", true);
        else
            note_read_failure(abs, std::string("open(") + abs + ") after yank");
        sim::stats().count("fault.fired.yank.open");
        errno = EIO;
        return -1;
    }
    if(f)
    {
        f->fired = true;
        sim::stats().count(std::string("fault.fired.") + kKindName[f->kind] + "." + f->outcome);
        if(wr)
            note_hard(std::string("open(") + abs + ") " + f->outcome, true);
        else
            note_read_failure(abs, std::string("open(") + abs + ") " + f->outcome);
        errno = errno_of(f->outcome);
        return -1;
    }
    if(int e = check_parent(abs))
    {
        note_hard("open(" + abs + ") natural errno " + std::to_string(e), wr);
        errno = e;
        return -1;
    }
    auto it = g.fs.find(abs);
    if(wr)
    {
        if(it != g.fs.end() && it->second.dir)
        {
            note_hard("open(" + abs + ") natural EISDIR", true);
            errno = EISDIR;
            return -1;
        }
        if(it != g.fs.end() && it->second.readonly)
        {
            note_hard("open(" + abs + ") natural EACCES (read-only file)", true);
            sim::stats().count("fault.fired.natural.readonly_output");
            errno = EACCES;
            return -1;
        }
        Node& n = g.fs[abs];
        if(it == g.fs.end()) n.created_by_run = true;
        if(it == g.fs.end() || trunc) n.mtime = g.now;
        if(trunc) n.data.clear();
    }
    else if(it == g.fs.end())
    {
        // a missing *input* is a failed read; probing for an existing output is ordinary behaviour
        if(abs.rfind("/sim/in/", 0) == 0 || abs == "/sim/in") note_hard("open(" + abs + ") natural ENOENT", false);
        errno = ENOENT;
        return -1;
    }
    int fd = memfd_create("simfile", 0);
    if(fd < 0) return -1;
    OpenFile of;
    of.path = abs;
    of.writing = wr;
    Node& n = g.fs[abs];
    of.is_dir = n.dir;
    of.endless = wr ? 0 : n.endless;
    of.dirseek_max = g.dirseek_max;
    if(!n.dir && !n.data.empty() && !(wr && trunc))
    {
        raw_write(fd, n.data.data(), n.data.size());
        if(!append) lseek(fd, 0, SEEK_SET);
    }
    g.open[fd] = of;
    return fd;
}

FILE* fopen64(const char* path, const char* mode)
{
    init_real();
    std::string abs = norm(path);
    if(!g.active || !in_sim(abs)) return real.fopen64(path, mode);
    abs = resolve(abs);
    if(abs.empty())
    {
        errno = ELOOP;
        return nullptr;
    }
    const bool wr = std::strchr(mode, 'w') || std::strchr(mode, 'a') || std::strchr(mode, '+');
    int fd = sim_open_fd(abs, wr, std::strchr(mode, 'w') != nullptr, std::strchr(mode, 'a') != nullptr);
    if(fd < 0) return nullptr;
    FILE* fp = fdopen(fd, mode);
    if(!fp)
    {
        g.open.erase(fd);
        syscall(SYS_close, fd);
        return nullptr;
    }
    return fp;
}

FILE* fopen(const char* path, const char* mode)
{
    return fopen64(path, mode);
}

int fclose(FILE* fp)
{
    init_real();
    int fd = fp ? fileno(fp) : -1;
    auto it = g.open.find(fd);
    if(it == g.open.end()) return real.fclose(fp);
    OpenFile of = it->second;
    g.open.erase(it);
    int rc = real.fclose(fp);
    if(!g.active) return rc;
    FaultSpec* f = on_call(of.writing ? K_CLOSEW : K_CLOSER, of.path);
    if(of.writing && f)
    {
        f->fired = true;
        sim::stats().count("fault.fired.close_w." + f->outcome.substr(0, f->outcome.find(':')));
        note_hard("close(" + of.path + ") " + f->outcome, true);
        if(f->outcome.rfind("DROP:", 0) == 0)
        {
            // deferred write error: the tail never reached the medium
            auto& d = g.fs[of.path].data;
            d.resize(d.size() / 2);
        }
        errno = errno_of(f->outcome.substr(f->outcome.find(':') + 1));
        return EOF;
    }
    return rc;
}

ssize_t write(int fd, const void* buf, size_t n)
{
    auto it = g.open.find(fd);
    if(!g.active || it == g.open.end()) return raw_write(fd, buf, n);
    return sim_write(fd, it->second, static_cast<const char*>(buf), n);
}

ssize_t writev(int fd, const struct iovec* iov, int cnt)
{
    auto it = g.open.find(fd);
    if(!g.active || it == g.open.end()) return syscall(SYS_writev, fd, iov, cnt);
    std::string all;
    for(int i = 0; i < cnt; i++) all.append(static_cast<const char*>(iov[i].iov_base), iov[i].iov_len);
    return sim_write(fd, it->second, all.data(), all.size());
}

ssize_t read(int fd, void* buf, size_t n)
{
    auto it = g.open.find(fd);
    if(!g.active || it == g.open.end()) return raw_read(fd, buf, n);
    OpenFile& of = it->second;
    FaultSpec* f = on_call(K_READ, of.path, (long)n);
    if(of.is_dir)
    {
        note_read_failure(of.path, "read(" + of.path + ") natural EISDIR");
        errno = EISDIR;
        return -1;
    }
    if(yanked())
    {
        note_read_failure(of.path, "read(" + of.path + ") after yank");
        errno = EIO;
        return -1;
    }
    if(f)
    {
        f->fired = true;
        sim::stats().count("fault.fired.read." + f->outcome.substr(0, f->outcome.find(':')));
        if(f->outcome.rfind("ERR:", 0) == 0)
        {
            note_read_failure(of.path, "read(" + of.path + ") " + f->outcome);
            errno = errno_of(f->outcome.substr(4));
            return -1;
        }
        if(f->outcome == "SHORT" && n > 1)
        {
            g.fired_soft.push_back("read(" + of.path + ") short");
            return raw_read(fd, buf, std::max<size_t>(1, std::min<size_t>((size_t)f->arg, n - 1)));
        }
        if(f->outcome == "EINTR")
        {
            g.fired_soft.push_back("read(" + of.path + ") EINTR");
            errno = EINTR;
            return -1;
        }
    }
    if(of.endless)
    {
        // a device that always has more: the read is satisfied in full, end of file never comes
        std::memset(buf, of.endless == 1 ? 0 : ' ', n);
        sim::stats().count("fault.fired.read.endless_device", 1);
        return (ssize_t)n;
    }
    return raw_read(fd, buf, n);
}

off64_t lseek64(int fd, off64_t off, int whence)
{
    auto it = g.open.find(fd);
    if(g.active && it != g.open.end() && it->second.is_dir)
    {
        // what Linux does for a directory fd: ext4 reports the maximum hash
        // position for SEEK_END, tmpfs a small number
        OpenFile& of = it->second;
        if(whence == SEEK_END)
            of.dirpos = of.dirseek_max ? LLONG_MAX : 2;
        else if(whence == SEEK_SET)
            of.dirpos = off;
        else
            of.dirpos += off;
        return of.dirpos;
    }
    return (off64_t)syscall(SYS_lseek, fd, off, whence);
}

int mkdir(const char* path, mode_t mode)
{
    init_real();
    std::string abs = norm(path);
    if(!g.active || !in_sim(abs)) return real.mkdir(path, mode);
    abs = resolve(abs);
    if(abs.empty())
    {
        errno = ELOOP;
        return -1;
    }
    FaultSpec* f = on_call(K_MKDIR, abs);
    if(under_condition(abs))
    {
        note_hard("mkdir(" + abs + ") environment condition errno " + std::to_string(g.cond_errno), true);
        sim::stats().count("fault.fired.condition.mkdir");
        errno = g.cond_errno;
        return -1;
    }
    if(yanked())
    {
        note_hard("mkdir(" + abs + ") after yank", true);
        sim::stats().count("fault.fired.yank.mkdir");
        errno = EIO;
        return -1;
    }
    auto it = g.fs.find(abs);
    if(it != g.fs.end())
    {
        // EEXIST on an existing directory is ordinary, not a fault; a regular file in the way of a
        // directory is a directory creation that cannot succeed
        if(!it->second.dir)
        {
            note_hard("mkdir(" + abs + ") natural EEXIST: a regular file is in the way", true);
            sim::stats().count("fault.fired.natural.file_in_place_of_directory");
        }
        errno = EEXIST;
        return -1;
    }
    if(f)
    {
        f->fired = true;
        sim::stats().count("fault.fired.mkdir." + f->outcome);
        note_hard("mkdir(" + abs + ") " + f->outcome, true);
        errno = errno_of(f->outcome);
        return -1;
    }
    if(int e = check_parent(abs))
    {
        if(e == ENOTDIR) note_hard("mkdir(" + abs + ") natural ENOTDIR", true);
        if(e == ENAMETOOLONG) note_hard("mkdir(" + abs + ") natural ENAMETOOLONG", true);
        errno = e;
        return -1;
    }
    Node n;
    n.dir = true;
    n.created_by_run = true;
    n.mtime = g.now;
    g.fs[abs] = n;
    return 0;
}

static int sim_stat(const std::string& abs, struct stat* st)
{
    FaultSpec* f = on_call(K_STAT, abs);
    if(under_condition(abs))
    {
        g.fired_soft.push_back("stat(" + abs + ") environment condition errno " + std::to_string(g.cond_errno));
        sim::stats().count("fault.fired.condition.stat");
        errno = g.cond_errno;
        return -1;
    }
    if(f)
    {
        // a failing stat() alone is not "a directory creation, file open or write" failing: libstdc++
        // may go on and succeed, so this is a soft fault (either ending is fine, exit 0 still implies
        // complete files)
        f->fired = true;
        sim::stats().count("fault.fired.stat." + f->outcome);
        g.fired_soft.push_back("stat(" + abs + ") " + f->outcome);
        errno = errno_of(f->outcome);
        return -1;
    }
    if(int e = check_parent(abs))
    {
        errno = e;
        return -1;
    }
    auto it = g.fs.find(abs);
    if(it == g.fs.end() && abs != "/sim")
    {
        errno = ENOENT;
        return -1;
    }
    std::memset(st, 0, sizeof *st);
    bool dir = abs == "/sim" || it->second.dir;
    const bool lnk = abs != "/sim" && !it->second.link.empty(); // only lstat gets here with an unresolved link
    st->st_mode = lnk ? (S_IFLNK | 0777) : dir ? (S_IFDIR | 0755) : (abs != "/sim" && it->second.endless) ? (S_IFCHR | 0666) : (S_IFREG | 0644);
    st->st_nlink = 1;
    st->st_size = lnk ? (off_t)it->second.link.size() : dir ? 4096 : (off_t)it->second.data.size();
    st->st_ino = (ino_t)(sim::fnv1a(abs.data(), abs.size()) | 1);
    st->st_dev = 42;
    if(abs != "/sim")
    {
        st->st_mtim.tv_sec = st->st_ctim.tv_sec = st->st_atim.tv_sec = (time_t)it->second.mtime;
        if(g_in_run) sim::stats().count("probe.stat_reported_simulated_mtime");
    }
    return 0;
}

int stat(const char* path, struct stat* st)
{
    init_real();
    std::string abs = norm(path);
    if(!g.active || !in_sim(abs)) return real.stat(path, st);
    abs = resolve(abs);
    if(abs.empty())
    {
        errno = ELOOP;
        return -1;
    }
    return sim_stat(abs, st);
}

int lstat(const char* path, struct stat* st)
{
    init_real();
    std::string abs = norm(path);
    if(!g.active || !in_sim(abs)) return real.lstat(path, st);
    abs = resolve(abs, false);
    if(abs.empty())
    {
        errno = ELOOP;
        return -1;
    }
    return sim_stat(abs, st);
}

int rename(const char* from, const char* to)
{
    init_real();
    std::string a = norm(from), b = norm(to);
    if(!g.active || !in_sim(a) || !in_sim(b)) return real.rename(from, to);
    a = resolve(a, false);
    b = resolve(b, false);
    if(a.empty() || b.empty())
    {
        errno = ELOOP;
        return -1;
    }
    FaultSpec* f = on_call(K_RENAME, b);
    if(under_condition(b) || under_condition(a))
    {
        note_hard("rename(" + b + ") environment condition errno " + std::to_string(g.cond_errno), true);
        errno = g.cond_errno;
        return -1;
    }
    if(yanked())
    {
        note_hard("rename(" + b + ") after yank", true);
        errno = EIO;
        return -1;
    }
    if(f)
    {
        f->fired = true;
        sim::stats().count("fault.fired.rename." + f->outcome);
        note_hard("rename(" + b + ") " + f->outcome, true);
        errno = errno_of(f->outcome);
        return -1;
    }
    auto src = g.fs.find(a);
    if(src == g.fs.end())
    {
        note_hard("rename(" + a + ") natural ENOENT", true);
        errno = ENOENT;
        return -1;
    }
    if(int e = check_parent(b))
    {
        note_hard("rename(" + b + ") natural errno " + std::to_string(e), true);
        errno = e;
        return -1;
    }
    auto dst = g.fs.find(b);
    if(dst != g.fs.end() && dst->second.dir != src->second.dir)
    {
        note_hard("rename(" + b + ") natural " + (dst->second.dir ? "EISDIR" : "ENOTDIR"), true);
        sim::stats().count("fault.fired.natural.rename_onto_other_kind");
        errno = dst->second.dir ? EISDIR : ENOTDIR;
        return -1;
    }
    Node n = src->second;
    g.fs.erase(src);
    g.fs[b] = n;
    return 0;
}

int unlink(const char* path)
{
    init_real();
    std::string a = norm(path);
    if(!g.active || !in_sim(a)) return real.unlink(path);
    a = resolve(a, false);
    if(a.empty())
    {
        errno = ELOOP;
        return -1;
    }
    auto it = g.fs.find(a);
    if(it == g.fs.end())
    {
        errno = ENOENT;
        return -1;
    }
    if(it->second.dir)
    {
        errno = EISDIR;
        return -1;
    }
    g.fs.erase(it);
    return 0;
}

// The wall clock is the simulator's: every run of a history happens at the simulated time the plan
// says (seconds, days or years after the previous one). Monotonic / CPU clocks pass through.
time_t time(time_t* t)
{
    if(!g.active)
    {
        struct timespec ts;
        syscall(SYS_clock_gettime, CLOCK_REALTIME, &ts);
        if(t) *t = ts.tv_sec;
        return ts.tv_sec;
    }
    g.clock_reads++;
    if(t) *t = (time_t)g.now;
    return (time_t)g.now;
}

int clock_gettime(clockid_t id, struct timespec* ts)
{
    if(!g.active || (id != CLOCK_REALTIME && id != CLOCK_REALTIME_COARSE && id != CLOCK_TAI)) return (int)syscall(SYS_clock_gettime, id, ts);
    g.clock_reads++;
    ts->tv_sec = (time_t)g.now;
    ts->tv_nsec = 123456789;
    return 0;
}

int gettimeofday(struct timeval* tv, void* tz)
{
    if(!g.active) return (int)syscall(SYS_gettimeofday, tv, tz);
    g.clock_reads++;
    if(tv)
    {
        tv->tv_sec = (time_t)g.now;
        tv->tv_usec = 123456;
    }
    return 0;
}

// the working directory is the simulator's too: a program that changes it changes how every relative
// path it uses afterwards (the output directory!) is resolved
int chdir(const char* path)
{
    if(!g.active)
    {
        static int (*real_chdir)(const char*) = (int (*)(const char*))dlsym(RTLD_NEXT, "chdir");
        return real_chdir(path);
    }
    std::string a = resolve(norm(path));
    if(a.empty())
    {
        errno = ELOOP;
        return -1;
    }
    auto it = g.fs.find(a);
    if(a != "/sim" && it == g.fs.end())
    {
        errno = ENOENT;
        return -1;
    }
    if(a != "/sim" && !it->second.dir)
    {
        errno = ENOTDIR;
        return -1;
    }
    g.cwd = a;
    sim::stats().count("probe.chdir_by_the_program");
    return 0;
}

// the simulated process lives in /sim: relative paths are resolved against it everywhere (norm), so
// code that asks for the working directory (std::filesystem::absolute / relative / canonical) must
// be told the same
char* getcwd(char* buf, size_t size)
{
    if(!g.active)
    {
        static char* (*real_getcwd)(char*, size_t) = (char* (*)(char*, size_t))dlsym(RTLD_NEXT, "getcwd");
        return real_getcwd(buf, size);
    }
    const std::string& c = g.cwd;
    if(!buf)
    {
        if(size == 0) size = c.size() + 1;
        if(size < c.size() + 1)
        {
            errno = ERANGE;
            return nullptr;
        }
        buf = (char*)malloc(size);
        if(!buf) return nullptr;
    }
    else if(size < c.size() + 1)
    {
        errno = size ? ERANGE : EINVAL;
        return nullptr;
    }
    std::memcpy(buf, c.c_str(), c.size() + 1);
    return buf;
}

ssize_t readlink(const char* path, char* buf, size_t sz)
{
    init_real();
    std::string a = norm(path);
    if(!g.active || !in_sim(a)) return (ssize_t)syscall(SYS_readlink, path, buf, sz);
    a = resolve(a, false);
    if(a.empty())
    {
        errno = ELOOP;
        return -1;
    }
    auto it = g.fs.find(a);
    if(it == g.fs.end() && a != "/sim")
    {
        errno = ENOENT;
        return -1;
    }
    if(a == "/sim" || it->second.link.empty())
    {
        errno = EINVAL;
        return -1;
    }
    sim::stats().count("probe.readlink_on_symlink");
    size_t n = std::min(sz, it->second.link.size());
    std::memcpy(buf, it->second.link.data(), n);
    return (ssize_t)n;
}

char* realpath(const char* path, char* out)
{
    init_real();
    static char* (*real_realpath)(const char*, char*) = (char* (*)(const char*, char*))dlsym(RTLD_NEXT, "realpath");
    std::string a = norm(path);
    if(!g.active || !in_sim(a)) return real_realpath(path, out);
    a = resolve(a);
    if(a.empty())
    {
        errno = ELOOP;
        return nullptr;
    }
    if(a != "/sim" && g.fs.find(a) == g.fs.end())
    {
        errno = ENOENT;
        return nullptr;
    }
    if(int e = check_parent(a))
    {
        errno = e;
        return nullptr;
    }
    if(!out) out = (char*)malloc(PATH_MAX);
    if(!out) return nullptr;
    std::snprintf(out, PATH_MAX, "%s", a.c_str());
    return out;
}

char* __realpath_chk(const char* path, char* out, size_t)
{
    return realpath(path, out);
}

int open(const char* path, int flags, ...)
{
    init_real();
    mode_t mode = 0;
    if(flags & O_CREAT)
    {
        va_list ap;
        va_start(ap, flags);
        mode = va_arg(ap, mode_t);
        va_end(ap);
    }
    std::string abs = norm(path);
    if(g.active && in_sim(abs))
    {
        abs = resolve(abs, (flags & O_NOFOLLOW) == 0);
        if(abs.empty())
        {
            errno = ELOOP;
            return -1;
        }
        // code that uses the POSIX API directly (instead of fstream) is simulated all the same
        const bool wr = (flags & O_ACCMODE) != O_RDONLY;
        auto it = g.fs.find(abs);
        if(!wr && (flags & O_DIRECTORY) == 0 && it != g.fs.end() && it->second.dir)
        {
            // opening a directory read-only succeeds, reads fail later
        }
        if(wr && it == g.fs.end() && !(flags & O_CREAT))
        {
            on_call(K_OPENW, abs);
            errno = ENOENT;
            return -1;
        }
        if((flags & O_CREAT) && (flags & O_EXCL) && it != g.fs.end())
        {
            on_call(K_OPENW, abs);
            errno = EEXIST;
            return -1;
        }
        return sim_open_fd(abs, wr, (flags & O_TRUNC) != 0, (flags & O_APPEND) != 0);
    }
    return real.open(path, flags, mode);
}

int open64(const char* path, int flags, ...)
{
    mode_t mode = 0;
    if(flags & O_CREAT)
    {
        va_list ap;
        va_start(ap, flags);
        mode = va_arg(ap, mode_t);
        va_end(ap);
    }
    return open(path, flags, mode);
}

int openat(int dirfd, const char* path, int flags, ...)
{
    init_real();
    mode_t mode = 0;
    if(flags & O_CREAT)
    {
        va_list ap;
        va_start(ap, flags);
        mode = va_arg(ap, mode_t);
        va_end(ap);
    }
    if(g.active && path && (path[0] == '/' || dirfd == AT_FDCWD) && in_sim(norm(path))) return open(path, flags, mode);
    return real.openat(dirfd, path, flags, mode);
}

int close(int fd)
{
    auto it = g.open.find(fd);
    if(it == g.open.end()) return (int)syscall(SYS_close, fd);
    OpenFile of = it->second;
    g.open.erase(it);
    int rc = (int)syscall(SYS_close, fd);
    if(!g.active) return rc;
    FaultSpec* f = on_call(of.writing ? K_CLOSEW : K_CLOSER, of.path);
    if(of.writing && f)
    {
        f->fired = true;
        sim::stats().count("fault.fired.close_w." + f->outcome.substr(0, f->outcome.find(':')));
        note_hard("close(" + of.path + ") " + f->outcome, true);
        if(f->outcome.rfind("DROP:", 0) == 0)
        {
            auto& d = g.fs[of.path].data;
            d.resize(d.size() / 2);
        }
        errno = errno_of(f->outcome.substr(f->outcome.find(':') + 1));
        return -1;
    }
    return rc;
}
} // extern "C"

// --------------------------------------------------------------- run glue
namespace
{
std::string g_prop = "C09";
// structural predicate of the staged input, evaluated before a run: some length="N" with N >= 10^6
// (sbeppc materialises constants / arrays of that length). Used to keep that known finding narrow.
bool g_huge_length = false;
// ... and: elements nested at least 5000 deep (the schema parser, the validator and the generators recurse
// per nesting level without a bound)
long g_nesting_depth = 0; // deepest element nesting of the staged input files
std::string resource_suffix()
{
    return g_huge_length ? ":huge-length-attribute" : "";
}
// The stack overflows from several thousand levels on (earlier in the sanitizer flavour, whose frames are larger);
// the cost of compiling nested groups explodes long before that (160 levels 3 s, 320 levels 83 s), so for the CPU
// budget a few hundred levels are already "deep". Depths between the generated extremes arise when a second edit
// cuts into a nest of 30000 (seen in the thorough tier: nest 60000, then an element deleted at level 4745).
std::string nesting_suffix(long at_least)
{
    return g_nesting_depth >= at_least ? ":deep-nesting" : "";
}
int g_saved_stdout = -1, g_saved_stderr = -1;
void restore_stdout()
{
    if(g_saved_stdout >= 0)
    {
        fflush(stdout); // into the capture file, which is dropped
        dup2(g_saved_stdout, 1);
        g_saved_stdout = -1;
    }
    if(g_saved_stderr >= 0)
    {
        dup2(g_saved_stderr, 2);
        g_saved_stderr = -1;
    }
    g.active = false;
}
sigjmp_buf g_exit_jb;
volatile int g_exit_code = 0;
volatile sig_atomic_t g_in_run = 0;
void die_here()
{
    // SIGKILL / power loss at this call: control leaves sbeppc without unwinding, so no stream is
    // flushed and no destructor runs; what the calls made so far put on the medium is all there is
    g.killed = true;
    g_exit_code = 137;
    g_in_run = 0;
    siglongjmp(g_exit_jb, 1);
}
}

// ---------------------------------------------------------- freed-memory seam
// While sbeppc runs, every block released through operator delete is filled with 0xDD and
// parked in a bounded quarantine instead of going back to the allocator, so that a dangling
// std::string / string_view read later in the same run yields a recognisable pattern rather
// than whatever the allocator put there (the quick tier has no ASan build). Blocks above
// 1 MiB go straight back: they are unmapped, and a dangling read of them faults.
#if !defined(__SANITIZE_ADDRESS__)
#include <malloc.h>
namespace quarantine
{
struct Entry
{
    void* p;
    std::size_t n;
};
constexpr std::size_t kSlots = 1u << 16, kCapBytes = 48u << 20;
Entry ring[kSlots];
std::size_t head = 0, count = 0, bytes = 0;
volatile int on = 0;
void pop()
{
    Entry e = ring[head];
    head = (head + 1) % kSlots;
    count--;
    bytes -= e.n;
    free(e.p);
}
void drain()
{
    while(count) pop();
}
void release(void* p)
{
    if(!p) return;
    if(!on)
    {
        free(p);
        return;
    }
    std::size_t n = malloc_usable_size(p);
    if(n > (1u << 20))
    {
        free(p);
        return;
    }
    memset(p, 0xDD, n);
    while(count == kSlots || (count && bytes + n > kCapBytes)) pop();
    ring[(head + count) % kSlots] = {p, n};
    count++;
    bytes += n;
}
} // namespace quarantine
// fresh blocks are filled with 0xCD while sbeppc runs: heap bytes printed or written before anything
// was stored in them show up as that pattern
void* operator new(std::size_t n)
{
    for(;;)
    {
        void* p = malloc(n ? n : 1);
        if(p)
        {
            if(quarantine::on && n <= (1u << 20)) memset(p, 0xCD, n);
            return p;
        }
        std::new_handler h = std::get_new_handler();
        if(!h) throw std::bad_alloc();
        h();
    }
}
void* operator new[](std::size_t n) { return operator new(n); }
void operator delete(void* p) noexcept { quarantine::release(p); }
void operator delete[](void* p) noexcept { quarantine::release(p); }
void operator delete(void* p, std::size_t) noexcept { quarantine::release(p); }
void operator delete[](void* p, std::size_t) noexcept { quarantine::release(p); }
void operator delete(void* p, std::align_val_t) noexcept { quarantine::release(p); }
void operator delete[](void* p, std::align_val_t) noexcept { quarantine::release(p); }
void operator delete(void* p, std::size_t, std::align_val_t) noexcept { quarantine::release(p); }
void operator delete[](void* p, std::size_t, std::align_val_t) noexcept { quarantine::release(p); }
#define QUARANTINE(x) quarantine::x
#else
#define QUARANTINE(x) (void)0
#endif

extern "C" void exit(int code)
{
    init_real();
    if(g_in_run)
    {
        g_exit_code = code;
        g_in_run = 0;
        siglongjmp(g_exit_jb, 1);
    }
    real.exit(code);
    __builtin_unreachable();
}

extern "C" void __assert_fail(const char* expr, const char* file, unsigned int line, const char* func)
{
    const char* base = std::strrchr(file, '/');
    // keep the signature short and stable: qualified function name only
    std::string fn = func;
    auto k = fn.find('(');
    if(k != std::string::npos) fn.resize(k);
    k = fn.rfind(' ');
    if(k != std::string::npos) fn = fn.substr(k + 1);
    std::string sig = g_prop + ":ASSERT:" + (base ? base + 1 : file) + ":" + fn;
    sim::crash_report(sig, std::string("internal assertion `") + expr + "` failed at " + file + ":" + std::to_string(line));
}

// libstdc++'s precondition checks (-D_GLIBCXX_ASSERTIONS: dereferencing a disengaged optional, indexing past the
// end of a vector / string / string_view, front() of an empty container ...): without the macro these are silent
// undefined behaviour in the shipped binary. Interposed like __assert_fail so that the outcome is classified.
namespace std
{
[[noreturn]] void __glibcxx_assert_fail(const char* file, int line, const char* function, const char* condition) noexcept
{
    // the standard-library entity whose precondition was violated, without template arguments
    std::string fn = function ? function : "?";
    auto with = fn.find(" [with");
    if(with != std::string::npos) fn.resize(with);
    for(auto lt = fn.find('<'); lt != std::string::npos; lt = fn.find('<'))
    {
        int depth = 0;
        size_t e = lt;
        for(; e < fn.size(); e++)
        {
            if(fn[e] == '<') depth++;
            if(fn[e] == '>' && --depth == 0) break;
        }
        fn.erase(lt, e < fn.size() ? e - lt + 1 : std::string::npos);
    }
    auto paren = fn.find('(');
    if(paren != std::string::npos) fn.resize(paren);
    auto sp = fn.rfind(' ');
    if(sp != std::string::npos) fn = fn.substr(sp + 1);
    if(!g_in_run) abort(); // the harness itself: an ordinary crash
    sim::crash_report(g_prop + ":UB:libstdc++-precondition:" + fn, std::string("undefined behaviour in the shipped build: libstdc++ precondition `") + (condition ? condition : "?") + "` of " + (function ? function : "?") + " violated (" + (file ? file : "?") + ":" + std::to_string(line) + ")");
    abort();
}
} // namespace std

namespace
{
void on_fatal_signal(int sig)
{
    const char* name = sig == SIGSEGV ? "SIGSEGV" : sig == SIGBUS ? "SIGBUS" : sig == SIGABRT ? "SIGABRT" : sig == SIGFPE ? "SIGFPE" : sig == SIGPROF ? "HANG" : "SIGNAL";
    signal(sig, SIG_DFL);
    if(!g_in_run)
    {
        raise(sig);
        return;
    }
    g.active = false;
    sim::crash_report(g_prop + ":CRASH:" + name + (sig == SIGPROF ? resource_suffix() + nesting_suffix(150) : sig == SIGSEGV ? nesting_suffix(1000) : ""), sig == SIGPROF ? "sbeppc exceeded its CPU budget" : std::string("sbeppc died with ") + name + (sig == SIGSEGV ? " (stack overflow if recursion is unbounded)" : ""));
}

void install_handlers()
{
    static unsigned char alt[1 << 16];
    stack_t ss{};
    ss.ss_sp = alt;
    ss.ss_size = sizeof alt;
    sigaltstack(&ss, nullptr);
    struct sigaction sa{};
    sa.sa_handler = on_fatal_signal;
    sa.sa_flags = SA_ONSTACK | SA_NODEFER;
    sigemptyset(&sa.sa_mask);
    for(int s : {SIGSEGV, SIGBUS, SIGABRT, SIGFPE, SIGPROF}) sigaction(s, &sa, nullptr);
}

struct RunOutcome
{
    int rc = 0;
    std::string kind = "EXIT"; // EXIT | UNCAUGHT:<type>
    std::string out;           // captured stdout
    bool diag = false;
    std::vector<TraceEntry> trace;
    std::vector<std::string> hard, soft;
    bool hard_output = false, hard_input = false;
    long bypass = 0;
    std::vector<FaultSpec> faults;
};

void set_budget_ms(long ms)
{
    itimerval it{};
    it.it_value.tv_sec = ms / 1000;
    it.it_value.tv_usec = (ms % 1000) * 1000;
    setitimer(ITIMER_PROF, &it, nullptr);
}

const char kFreedPattern[] = "\xDD\xDD\xDD\xDD\xDD\xDD\xDD\xDD";
const char kFreshPattern[] = "\xCD\xCD\xCD\xCD\xCD\xCD\xCD\xCD";

// The call into real code. Everything around it is simulator.
RunOutcome run_sbeppc_here(const std::vector<std::string>& args, const std::vector<FaultSpec>& faults, long yank_at, long diskfull);
long g_kill_next = -1; // set by the `kill` op: the next invocation dies at that call


// ---------------------------------------------------------- process isolation
// A real sbeppc invocation is a fresh process: function-local statics, caches and anything else with
// process lifetime start from scratch every time. With g_isolate set (C20) every run - the reference
// runs included - therefore happens in a forked child of a worker that itself never executes sbeppc
// code; the child ships the outcome, the resulting file tree and its statistics back through a pipe.
bool g_isolate = false;

struct Ser
{
    std::string b;
    void num(long long v) { b.append(reinterpret_cast<const char*>(&v), sizeof v); }
    void str(const std::string& s)
    {
        num((long long)s.size());
        b += s;
    }
};
struct De
{
    const std::string& b;
    std::size_t o;
    bool bad = false;
    long long num()
    {
        long long v = 0;
        if(o + sizeof v > b.size())
        {
            bad = true;
            return 0;
        }
        std::memcpy(&v, b.data() + o, sizeof v);
        o += sizeof v;
        return v;
    }
    std::string str()
    {
        long long n = num();
        if(bad || n < 0 || o + (std::size_t)n > b.size())
        {
            bad = true;
            return "";
        }
        std::string s = b.substr(o, (std::size_t)n);
        o += (std::size_t)n;
        return s;
    }
};

RunOutcome run_sbeppc(const std::vector<std::string>& args, const std::vector<FaultSpec>& faults, long yank_at, long diskfull)
{
    if(!g_isolate) return run_sbeppc_here(args, faults, yank_at, diskfull);
    int fd[2];
    if(pipe(fd) != 0) _exit(3);
    fflush(stdout);
    fflush(stderr);
    pid_t pid = fork();
    if(pid == 0)
    {
        syscall(SYS_close, fd[0]);
        sim::crash_ctx().mode = 2; // a crash-class outcome is written to the pipe by crash_report
        sim::crash_ctx().pipe_fd = fd[1];
        sim::stats().counters.clear();
        sim::stats().tuples.clear();
        sim::stats().samples.clear();
        RunOutcome ro = run_sbeppc_here(args, faults, yank_at, diskfull);
        Ser s;
        s.b = "R\n";
        s.num(ro.rc);
        s.str(ro.kind);
        s.str(ro.out);
        s.num(ro.diag);
        s.num((long long)ro.trace.size());
        for(auto& t : ro.trace)
        {
            s.num(t.kind);
            s.str(t.path);
            s.num(t.len);
        }
        s.num((long long)ro.hard.size());
        for(auto& h : ro.hard) s.str(h);
        s.num((long long)ro.soft.size());
        for(auto& h : ro.soft) s.str(h);
        s.num(ro.hard_output);
        s.num(ro.hard_input);
        s.num(ro.bypass);
        s.num((long long)ro.faults.size());
        for(auto& q : ro.faults)
        {
            s.num(q.kind);
            s.num(q.ordinal);
            s.str(q.outcome);
            s.num(q.arg);
            s.num(q.fired);
        }
        s.num((long long)g.fs.size());
        for(auto& kv : g.fs)
        {
            s.str(kv.first);
            s.num(kv.second.dir);
            s.str(kv.second.data);
            s.num(kv.second.created_by_run);
            s.num(kv.second.readonly);
            s.str(kv.second.link);
            s.num(kv.second.mtime);
            s.num(kv.second.endless);
        }
        s.num(g.cond_fired);
        s.num((long long)sim::stats().counters.size());
        for(auto& kv : sim::stats().counters)
        {
            s.str(kv.first);
            s.num((long long)kv.second);
        }
        s.num((long long)sim::stats().tuples.size());
        for(auto& t : sim::stats().tuples) s.str(t);
        std::size_t off = 0;
        while(off < s.b.size())
        {
            long w = syscall(SYS_write, fd[1], s.b.data() + off, s.b.size() - off);
            if(w <= 0) break;
            off += (std::size_t)w;
        }
        _exit(0);
    }
    syscall(SYS_close, fd[1]);
    std::string in;
    char buf[1 << 16];
    for(;;)
    {
        long n = syscall(SYS_read, fd[0], buf, sizeof buf);
        if(n > 0)
            in.append(buf, (std::size_t)n);
        else if(n == 0 || errno != EINTR)
            break;
    }
    syscall(SYS_close, fd[0]);
    int st = 0;
    while(waitpid(pid, &st, 0) < 0 && errno == EINTR) {}
    sim::stats().count("probe.runs_in_a_fresh_process");
    if(in.compare(0, 2, "1\n") == 0)
    {
        // crash-class outcome reported by the child: hand it on the way this process would have reported it
        std::istringstream is(in.substr(2));
        std::string sig, fpl, detail, l;
        std::getline(is, sig);
        std::getline(is, fpl);
        while(std::getline(is, l)) detail += l + " ";
        sim::crash_report(sig, detail);
    }
    if(in.compare(0, 2, "R\n") != 0 || !WIFEXITED(st) || WEXITSTATUS(st) != 0)
        sim::crash_report(g_prop + ":CRASH:" + (WIFSIGNALED(st) ? "signal" + std::to_string(WTERMSIG(st)) : "child-died"), "the process running sbeppc died without reporting");
    De d{in, 2};
    RunOutcome ro;
    ro.rc = (int)d.num();
    ro.kind = d.str();
    ro.out = d.str();
    ro.diag = d.num() != 0;
    for(long long k = d.num(); k > 0 && !d.bad; k--)
    {
        TraceEntry t;
        t.kind = (int)d.num();
        t.path = d.str();
        t.len = (long)d.num();
        ro.trace.push_back(t);
    }
    for(long long k = d.num(); k > 0 && !d.bad; k--) ro.hard.push_back(d.str());
    for(long long k = d.num(); k > 0 && !d.bad; k--) ro.soft.push_back(d.str());
    ro.hard_output = d.num() != 0;
    ro.hard_input = d.num() != 0;
    ro.bypass = (long)d.num();
    for(long long k = d.num(); k > 0 && !d.bad; k--)
    {
        FaultSpec q;
        q.kind = (int)d.num();
        q.ordinal = (long)d.num();
        q.outcome = d.str();
        q.arg = (long)d.num();
        q.fired = d.num() != 0;
        ro.faults.push_back(q);
    }
    std::map<std::string, Node> fs;
    for(long long k = d.num(); k > 0 && !d.bad; k--)
    {
        std::string path = d.str();
        Node nd;
        nd.dir = d.num() != 0;
        nd.data = d.str();
        nd.created_by_run = d.num() != 0;
        nd.readonly = d.num() != 0;
        nd.link = d.str();
        nd.mtime = d.num();
        nd.endless = (int)d.num();
        fs[path] = nd;
    }
    g.cond_fired = (long)d.num();
    for(long long k = d.num(); k > 0 && !d.bad; k--)
    {
        std::string key = d.str();
        sim::stats().count(key, (std::uint64_t)d.num());
    }
    for(long long k = d.num(); k > 0 && !d.bad; k--) sim::stats().tuple(d.str());
    if(d.bad) sim::crash_report("HARNESS:isolation-protocol", "truncated result from the process running sbeppc");
    g.fs = fs;
    g.faults = ro.faults;
    return ro;
}

RunOutcome run_sbeppc_here(const std::vector<std::string>& args, const std::vector<FaultSpec>& faults, long yank_at, long diskfull)
{
    RunOutcome ro;
    std::vector<std::string> store = args;
    std::vector<char*> argv;
    for(auto& s : store) argv.push_back(s.data());
    argv.push_back(nullptr);

    // stdout -> memfd
    fflush(stdout);
    fflush(stderr);
    int saved = dup(1);
    int saved_err = dup(2);
    int cap = memfd_create("stdout", 0);
    dup2(cap, 1);
    dup2(cap, 2); // a diagnostic on stderr is a diagnostic too
    g_saved_stdout = saved;
    g_saved_stderr = saved_err;
    sim::crash_ctx().before_report = restore_stdout;

    g.faults = faults;
    g.yank_at = yank_at;
    g.kill_at = g_kill_next;
    g_kill_next = -1;
    g.killed = false;
    g.diskfull = diskfull;
    g.total_written = 0;
    std::fill(std::begin(g.counts), std::end(g.counts), 0);
    g.call_index = 0;
    g.trace.clear();
    g.fired_hard.clear();
    g.fired_soft.clear();
    g.fired_hard_output = g.fired_hard_input = false;
    g.bypass = 0;
    g.cond_fired = 0;
    g.cwd = "/sim"; // every invocation starts in the simulated working directory
    for(auto& kv : g.fs) kv.second.created_by_run = false;
    g.active = true;
    set_budget_ms(20000);
    QUARANTINE(on = 1);
    if(sigsetjmp(g_exit_jb, 1) == 0)
    {
        g_in_run = 1;
        try
        {
            ro.rc = sbeppc_main((int)store.size(), argv.data());
        }
        catch(const std::exception& e)
        {
            int st = 0;
            char* dn = abi::__cxa_demangle(typeid(e).name(), nullptr, nullptr, &st);
            ro.kind = std::string("UNCAUGHT:") + (dn ? dn : typeid(e).name());
            free(dn);
            ro.out += std::string("[what: ") + e.what() + "]";
            ro.rc = 134;
        }
        catch(...)
        {
            ro.kind = "UNCAUGHT:unknown";
            ro.rc = 134;
        }
        g_in_run = 0;
    }
    else
    {
        ro.rc = g_exit_code; // std::exit() from --help / --version
        if(g.killed) ro.kind = "KILLED";
    }
    g.kill_at = -1;
    set_budget_ms(0);
    QUARANTINE(on = 0);
    QUARANTINE(drain());
    g.active = false;
    // files sbeppc left open (it jumped out through exit): drop them
    for(auto& kv : g.open) syscall(SYS_close, kv.first);
    g.open.clear();
    fflush(stdout);
    fflush(stderr);
    dup2(saved, 1);
    close(saved);
    dup2(saved_err, 2);
    close(saved_err);
    g_saved_stdout = -1;
    g_saved_stderr = -1;
    off_t len = lseek(cap, 0, SEEK_END);
    lseek(cap, 0, SEEK_SET);
    std::string out((size_t)std::max<off_t>(len, 0), '\0');
    if(len > 0) raw_read(cap, out.data(), (size_t)len);
    close(cap);
    ro.out = out + ro.out;
    // "a diagnostic line": any visible text on stdout or stderr (the wording is not part of the property)
    ro.diag = false;
    for(unsigned char ch : out)
        if(std::isgraph(ch)) ro.diag = true;
    ro.trace = g.trace;
    ro.hard = g.fired_hard;
    ro.soft = g.fired_soft;
    ro.hard_output = g.fired_hard_output;
    ro.hard_input = g.fired_hard_input;
    ro.bypass = g.bypass;
    ro.faults = g.faults;
    return ro;
}

// Heap layout perturbation: a seeded pattern of live and freed blocks before
// the run changes the relative order of the addresses sbeppc's objects get.
std::vector<void*> g_heap_hold;
void perturb_heap(u64 seed)
{
    for(void* p : g_heap_hold) free(p);
    g_heap_hold.clear();
    if(seed == 0) return;
    sim::Rng r(seed);
    std::vector<void*> tmp;
    int n = (int)r.range(50, 400);
    for(int i = 0; i < n; i++) tmp.push_back(malloc((size_t)r.range(8, 700)));
    for(auto p : tmp)
    {
        if(r.chance(1, 2))
            free(p);
        else
            g_heap_hold.push_back(p);
    }
}

// ------------------------------------------------------------------ corpus
struct Corpus
{
    std::map<std::string, std::string> files; // relative name -> content
    std::vector<std::string> names;
};
Corpus g_corpus;

void load_corpus()
{
    if(!g_corpus.names.empty()) return;
    const char* repo = getenv("VERIF_REPO");
    std::string root = repo ? repo : "/repo";
    std::vector<std::string> dirs = {root + "/test/schemas", root + "/test/naming_test"};
    const char* extra = getenv("FSIM_EXTRA_CORPUS");
    if(extra && *extra) dirs.push_back(extra);
    for(auto& d : dirs)
    {
        std::error_code ec;
        std::vector<std::filesystem::path> ps;
        for(auto& e : std::filesystem::directory_iterator(d, ec))
            if(e.path().extension() == ".xml") ps.push_back(e.path());
        std::sort(ps.begin(), ps.end());
        for(auto& p : ps)
        {
            FILE* f = fopen(p.c_str(), "rb");
            if(!f) continue;
            std::string s;
            char buf[65536];
            size_t k;
            while((k = fread(buf, 1, sizeof buf, f)) > 0) s.append(buf, k);
            fclose(f);
            std::string name = p.filename().string();
            g_corpus.files[name] = s;
            g_corpus.names.push_back(name);
        }
    }
    if(g_corpus.names.empty())
    {
        fprintf(stderr, "fsim: empty corpus\n");
        _exit(3);
    }
}

void fs_reset()
{
    g.fs.clear();
    Node d;
    d.dir = true;
    g.fs["/sim"] = d;
    g.fs["/sim/in"] = d;
    // a symbolic link to a directory two levels down: "ln/.." is /sim/far, not /sim
    g.fs["/sim/far"] = d;
    g.fs["/sim/far/deep"] = d;
    Node ln;
    ln.link = "far/deep";
    g.fs["/sim/ln"] = ln;
}

std::string out_dir_arg(long variant)
{
    switch(variant)
    {
    case 0: return "out";
    case 1: return "/sim/out";
    case 2: return "out/a/b";
    case 3: return "./out/../out2/";
    case 5: return "ln/../out5";
    default: return "";
    }
}

std::string out_root_abs(long variant)
{
    switch(variant)
    {
    case 0: return "/sim/out";
    case 1: return "/sim/out";
    case 2: return "/sim/out/a/b";
    case 3: return "/sim/out2";
    case 5: return "/sim/far/out5";
    default: return "/sim";
    }
}

struct Ref
{
    bool ok = false;
    std::map<std::string, std::string> files; // abs path -> content
    std::set<std::string> dirs;                // directories the fault-free run creates
    std::vector<TraceEntry> trace;
    std::string why;
    bool missing = false; // exit 0 but a header the schema asks for was not written
};
std::map<std::string, Ref> g_ref;

// How the command line spells the schema path: the same file, named differently (C20: the same schema
// compiled again must give byte-identical files however its path is typed).
long g_input_spelling = 0;
std::string input_arg(const std::string& schema)
{
    switch(g_input_spelling)
    {
    case 1: return "./in/" + schema;
    case 2: return "/sim/in/" + schema;
    case 3: return "in/../in/./" + schema;
    case 4: return "far/../in/" + schema;
    default: return "in/" + schema;
    }
}

std::vector<std::string> base_args(const std::string& schema, long outv)
{
    std::vector<std::string> a = {"sbeppc"};
    if(outv != 4)
    {
        a.push_back("--output-dir");
        a.push_back(out_dir_arg(outv));
    }
    a.push_back(input_arg(schema));
    return a;
}

std::vector<std::string> argv_variant(long v, const std::string& schema, long outv);

// The headers a schema asks for, read off its text independently of sbeppc: one per
// top-level encoding under <types> and one per <message> (only the main file is scanned, so
// the list is a subset of what must exist - sound). Returns (subdir, name) pairs.
std::vector<std::pair<std::string, std::string>> expected_headers(const std::string& xml)
{
    std::vector<std::pair<std::string, std::string>> out;
    std::vector<std::string> stack;
    size_t i = 0;
    auto local = [](std::string s) {
        size_t c = s.find(':');
        return c == std::string::npos ? s : s.substr(c + 1);
    };
    while((i = xml.find('<', i)) != std::string::npos)
    {
        if(xml.compare(i, 4, "<!--") == 0)
        {
            size_t e = xml.find("-->", i);
            if(e == std::string::npos) break;
            i = e + 3;
            continue;
        }
        if(xml.compare(i, 2, "<?") == 0 || xml.compare(i, 2, "<!") == 0)
        {
            size_t e = xml.find('>', i);
            if(e == std::string::npos) break;
            i = e + 1;
            continue;
        }
        size_t e = xml.find('>', i);
        if(e == std::string::npos) break;
        std::string tag = xml.substr(i + 1, e - i - 1);
        i = e + 1;
        if(tag.empty()) continue;
        if(tag[0] == '/')
        {
            if(!stack.empty()) stack.pop_back();
            continue;
        }
        const bool selfclose = tag.back() == '/';
        size_t ne = tag.find_first_of(" \t\r\n/");
        std::string el = local(tag.substr(0, ne));
        std::string name;
        size_t np = tag.find(" name=\"");
        if(np != std::string::npos)
        {
            size_t q = tag.find('"', np + 7);
            if(q != std::string::npos) name = tag.substr(np + 7, q - np - 7);
        }
        const std::string parent = stack.empty() ? "" : stack.back();
        if(!name.empty())
        {
            if(parent == "types" && (el == "type" || el == "composite" || el == "enum" || el == "set")) out.push_back({"types", name});
            if(parent == "messageSchema" && el == "message") out.push_back({"messages", name});
        }
        if(!selfclose) stack.push_back(el);
    }
    return out;
}

const Ref& reference(const std::string& schema, long outv, long argv_v = 0)
{
    std::string key = schema + "#" + std::to_string(outv) + "#" + std::to_string(argv_v);
    auto it = g_ref.find(key);
    if(it != g_ref.end()) return it->second;
    auto saved = g.fs;
    Ref r;
    std::map<std::string, std::string> first;
    const long long saved_now = g.now;
    // the reference is always taken with the plain spelling of the schema path ("in/<name>")
    struct SpellingZero
    {
        long saved;
        SpellingZero() : saved(g_input_spelling) { g_input_spelling = 0; }
        ~SpellingZero() { g_input_spelling = saved; }
    } spelling_zero;
    // ... and in an environment without conditions or pending crashes: a reference is computed the first time a
    // plan (or the generator) asks for it, possibly in the middle of a history whose `cond` op is in force, or
    // after a plan that ended with one. It used to inherit that condition, fail, and stay cached as "no reference"
    // for the rest of the worker's life: every later plan on that (schema, directory) pair was skipped without a
    // verdict (found by the determinism selftest once it covered histories: 308 of 2 000 plans differed between 16 and
    // 3 workers).
    struct CleanEnv
    {
        int cond_errno;
        std::string cond_prefix;
        long kill_next;
        bool dirseek_max;
        CleanEnv() : cond_errno(g.cond_errno), cond_prefix(g.cond_prefix), kill_next(g_kill_next), dirseek_max(g.dirseek_max)
        {
            g.cond_errno = 0;
            g.cond_prefix.clear();
            g_kill_next = -1;
            g.dirseek_max = true;
        }
        ~CleanEnv()
        {
            g.cond_errno = cond_errno;
            g.cond_prefix = cond_prefix;
            g_kill_next = kill_next;
            g.dirseek_max = dirseek_max;
        }
    } clean_env;
    for(int round = 0; round < 2; round++)
    {
        fs_reset();
        g.now = 1750000000 + (round ? 3 : 0); // the reference is taken at a fixed simulated time (the second fresh run 3 s later)
        g.fs["/sim/in/" + schema].data = g_corpus.files[schema];
        perturb_heap(round ? 0x5eed + sim::fnv1a(key.data(), key.size()) : 0);
        RunOutcome ro = run_sbeppc(argv_variant(argv_v, schema, outv), {}, -1, -1);
        std::map<std::string, std::string> files;
        for(auto& kv : g.fs)
            if(!kv.second.dir && kv.second.link.empty() && kv.first.rfind("/sim/in/", 0) != 0) files[kv.first] = kv.second.data;
        if(ro.rc != 0 || ro.kind != "EXIT")
        {
            r.ok = false;
            r.why = "fault-free run failed: rc=" + std::to_string(ro.rc) + " " + ro.kind + " " + ro.out.substr(0, 200);
            break;
        }
        if(round == 0)
        {
            first = files;
            r.trace = ro.trace;
            r.ok = true;
            for(auto& kv : g.fs)
                if(kv.second.dir && kv.first != "/sim" && kv.first != "/sim/in" && kv.first != "/sim/far" && kv.first != "/sim/far/deep") r.dirs.insert(kv.first);
        }
        else if(files != first)
        {
            r.ok = false;
            r.why = "two fresh fault-free runs with different heap layouts produced different files";
        }
    }
    perturb_heap(0);
    g.now = saved_now;
    r.files = first;
    if(r.ok)
    {
        // exit 0 in a fresh directory: every header the schema asks for must be among the files
        // (sbeppc may append `_` to a name that is a C++ keyword)
        for(auto& ex : expected_headers(g_corpus.files[schema]))
        {
            bool found = false;
            for(auto& kv : first)
            {
                // ... below the directory the command line names, as the file system resolves that name
                // (a ".." behind a symbolic link is the parent of the link's target)
                if(kv.first.rfind(out_root_abs(outv) + "/", 0) != 0) continue;
                const std::string a = "/" + ex.first + "/" + ex.second + ".hpp", b = "/" + ex.first + "/" + ex.second + "_.hpp";
                auto ends = [&](const std::string& suf) { return kv.first.size() >= suf.size() && kv.first.compare(kv.first.size() - suf.size(), suf.size(), suf) == 0; };
                if(ends(a) || ends(b))
                {
                    found = true;
                    break;
                }
            }
            if(!found)
            {
                r.ok = false;
                r.missing = true;
                r.why = "fault-free run exited 0 but wrote no " + ex.first + "/" + ex.second + ".hpp below " + out_root_abs(outv) + " (the directory --output-dir names) although the schema defines it";
                break;
            }
        }
    }
    g.fs = saved;
    return g_ref[key] = r;
}

// --------------------------------------------------------- input mutations
const std::size_t kSector = 512;

void apply_mutation(const Op& op)
{
    const std::string path = "/sim/in/" + op.sarg(0);
    auto it = g.fs.find(path);
    if(it == g.fs.end() || it->second.dir) return;
    std::string& d = it->second.data;
    const std::string n = op.name.substr(4);
    auto nsec = [&] { return (d.size() + kSector - 1) / kSector; };
    if(n == "truncate")
    {
        if(!d.empty()) d.resize((size_t)(op.uarg(0) % d.size()));
    }
    else if(n == "flip")
    {
        if(!d.empty()) d[(size_t)(op.uarg(0) % d.size())] ^= (char)(op.uarg(1) | 1);
    }
    else if(n == "zero")
    {
        if(nsec())
        {
            size_t s = (size_t)(op.uarg(0) % nsec()) * kSector;
            for(size_t i = s; i < std::min(d.size(), s + kSector); i++) d[i] = 0;
        }
    }
    else if(n == "dup")
    {
        if(nsec() > 1)
        {
            size_t s = (size_t)(1 + op.uarg(0) % (nsec() - 1)) * kSector;
            for(size_t i = s; i < std::min(d.size(), s + kSector); i++) d[i] = d[i - kSector];
        }
    }
    else if(n == "swap")
    {
        if(nsec() > 2)
        {
            size_t a = (size_t)(op.uarg(0) % (nsec() - 1)) * kSector, b = (size_t)(op.uarg(1) % (nsec() - 1)) * kSector;
            for(size_t i = 0; i < kSector && a + i < d.size() && b + i < d.size(); i++) std::swap(d[a + i], d[b + i]);
        }
    }
    else if(n == "stale")
    {
        auto o = g_corpus.files.find(op.sarg(1));
        if(o != g_corpus.files.end() && nsec())
        {
            size_t s = (size_t)(op.uarg(0) % nsec()) * kSector;
            for(size_t i = s; i < std::min(d.size(), s + kSector); i++) d[i] = i < o->second.size() ? o->second[i] : ' ';
        }
    }
    else if(n == "retarget" || n == "attrdel" || n == "extreme")
    {
        // token-level edits of the stored text: every  name="value"  occurrence
        struct Attr
        {
            size_t name_b, name_e, val_b, val_e; // [name_b,name_e) name, [val_b,val_e) value without quotes
        };
        std::vector<Attr> attrs;
        for(size_t i = 0; i + 2 < d.size(); i++)
        {
            if(d[i] != '=' || d[i + 1] != '"') continue;
            size_t nb = i;
            while(nb > 0 && (std::isalnum((unsigned char)d[nb - 1]) || d[nb - 1] == ':' || d[nb - 1] == '_')) nb--;
            size_t ve = d.find('"', i + 2);
            if(nb == i || ve == std::string::npos) continue;
            attrs.push_back({nb, i, i + 2, ve});
            i = ve;
        }
        if(attrs.empty()) return;
        auto name_of = [&](const Attr& a) { return d.substr(a.name_b, a.name_e - a.name_b); };
        if(n == "attrdel")
        {
            const Attr& a = attrs[(size_t)(op.uarg(0) % attrs.size())];
            d.erase(a.name_b, a.val_e + 1 - a.name_b);
        }
        else if(n == "retarget")
        {
            // a reference-valued attribute gets the name of some other entity of the file
            std::vector<size_t> refs, names;
            for(size_t k = 0; k < attrs.size(); k++)
            {
                const std::string nm = name_of(attrs[k]);
                if(nm == "type" || nm == "dimensionType" || nm == "encodingType" || nm == "headerType" || nm == "valueRef" || nm == "primitiveType") refs.push_back(k);
                if(nm == "name") names.push_back(k);
            }
            if(refs.empty() || names.empty()) return;
            // The victim is drawn by attribute kind first, then among the attributes of that kind: a schema has
            // hundreds of `type=` and a handful of `primitiveType=` / `encodingType=` / `dimensionType=`, and a
            // uniform draw over all of them hardly ever retargets the rare kinds (seeded change C09-B3 was caught
            // by 3 of 120 000 plans and by none after the generator had changed).
            std::vector<std::string> kinds;
            for(size_t k : refs)
                if(std::find(kinds.begin(), kinds.end(), name_of(attrs[k])) == kinds.end()) kinds.push_back(name_of(attrs[k]));
            const std::string kind = kinds[(size_t)((op.uarg(0) / 7) % kinds.size())];
            std::vector<size_t> of_kind;
            for(size_t k : refs)
                if(name_of(attrs[k]) == kind) of_kind.push_back(k);
            const Attr& r = attrs[of_kind[(size_t)(op.uarg(0) % of_kind.size())]];
            const Attr& s = attrs[names[(size_t)(op.uarg(1) % names.size())]];
            std::string v = d.substr(s.val_b, s.val_e - s.val_b);
            if(op.uarg(1) % 6 == 5)
            {
                // ... or a name nothing in the file carries
                static const char* const kStrange[] = {"uint128", "", "INT32", "int 8", "float64", "Char", "uint8_t", "group", "sbe:messageSchema"};
                v = kStrange[(op.uarg(1) / 6) % (sizeof(kStrange) / sizeof(kStrange[0]))];
            }
            if(name_of(r) == "valueRef")
            {
                // valueRef has the form Enum.Value: pick an enum of the file and one of its values
                std::vector<std::string> pairs;
                std::string cur_enum;
                for(size_t k = 0; k < attrs.size(); k++)
                {
                    if(name_of(attrs[k]) != "name") continue;
                    size_t lt = d.rfind('<', attrs[k].name_b);
                    if(lt == std::string::npos) continue;
                    const std::string tag = d.substr(lt + 1, d.find_first_of(" \t\r\n>", lt + 1) - lt - 1);
                    const std::string val = d.substr(attrs[k].val_b, attrs[k].val_e - attrs[k].val_b);
                    if(tag == "enum")
                        cur_enum = val;
                    else if(tag == "validValue" && !cur_enum.empty())
                        pairs.push_back(cur_enum + "." + val);
                    else if(tag != "validValue" && tag != "choice")
                        cur_enum.clear();
                }
                if(!pairs.empty()) v = pairs[(size_t)(op.uarg(1) % pairs.size())];
            }
            d.replace(r.val_b, r.val_e - r.val_b, v);
        }
        else
        {
            // extreme numbers in numeric attributes
            std::vector<size_t> nums;
            for(size_t k = 0; k < attrs.size(); k++)
            {
                size_t vb = attrs[k].val_b;
                if(vb < attrs[k].val_e && (d[vb] == '-' || d[vb] == '+')) vb++; // signed literals are numbers too
                bool dig = attrs[k].val_e > vb;
                for(size_t j = vb; j < attrs[k].val_e; j++)
                    if(!std::isdigit((unsigned char)d[j])) dig = false;
                if(dig) nums.push_back(k);
            }
            if(nums.empty()) return;
            static const char* ext[] = {"0", "-1", "255", "256", "65535", "65536", "2147483647", "2147483648", "4294967295", "4294967296", "9223372036854775807", "9223372036854775808", "18446744073709551615", "18446744073709551616", "99999999999999999999999999999999", "1e400", "0x10", "+5", " 7", "7 ", "", "+0", "-0", "+1", "+18446744073709551615", "-129", "-32769", "-2147483649", "-9223372036854775808", "-9223372036854775809", "+", "-", "1-", "--1", "1.0", "00000000000000000000001"};
            const Attr& a = attrs[nums[(size_t)(op.uarg(0) % nums.size())]];
            d.replace(a.val_b, a.val_e - a.val_b, ext[op.uarg(1) % (sizeof(ext) / sizeof(ext[0]))]);
        }
    }
    else if(n == "elem")
    {
        // structure-aware edits on whole XML elements of the stored schema: delete, duplicate, move to
        // another place (element moves across nesting levels), rename the tag (a <field> becomes a <group>,
        // a <type> a <composite>, ...), wrap in a new parent, or graft an element of another corpus schema.
        struct El
        {
            size_t b, e, name_b, name_e; // [b,e) whole element incl. end tag; tag name
            bool selfclosing;
        };
        auto index = [](const std::string& x) {
            std::vector<El> els;
            std::vector<size_t> open; // indices into els
            size_t i = 0;
            while((i = x.find('<', i)) != std::string::npos)
            {
                if(x.compare(i, 4, "<!--") == 0)
                {
                    size_t c = x.find("-->", i);
                    if(c == std::string::npos) break;
                    i = c + 3;
                    continue;
                }
                if(i + 1 < x.size() && (x[i + 1] == '?' || x[i + 1] == '!'))
                {
                    size_t c = x.find('>', i);
                    if(c == std::string::npos) break;
                    i = c + 1;
                    continue;
                }
                size_t gt = i;
                bool inq = false;
                for(gt = i; gt < x.size(); gt++)
                {
                    if(x[gt] == '"') inq = !inq;
                    if(x[gt] == '>' && !inq) break;
                }
                if(gt >= x.size()) break;
                if(x[i + 1] == '/')
                {
                    if(!open.empty())
                    {
                        els[open.back()].e = gt + 1;
                        open.pop_back();
                    }
                }
                else
                {
                    El el;
                    el.b = i;
                    el.name_b = i + 1;
                    el.name_e = x.find_first_of(" \t\r\n/>", i + 1);
                    el.selfclosing = gt > 0 && x[gt - 1] == '/';
                    el.e = gt + 1;
                    els.push_back(el);
                    if(!el.selfclosing) open.push_back(els.size() - 1);
                }
                i = gt + 1;
            }
            return els;
        };
        std::vector<El> els = index(d);
        if(els.size() < 3) return;
        const long kind = op.arg(0);
        // never the root element itself for whole-element edits
        const El& a = els[1 + (size_t)(op.uarg(1) % (els.size() - 1))];
        const std::string text = d.substr(a.b, a.e - a.b);
        if(kind == 0)
            d.erase(a.b, a.e - a.b);
        else if(kind == 1)
            d.insert(a.e, "\n" + text);
        else if(kind == 2)
        {
            // move: cut, then paste right behind (or, for containers, just inside) some other element
            const El& t = els[1 + (size_t)(op.uarg(2) % (els.size() - 1))];
            if(t.b >= a.b && t.b < a.e) return; // target inside the moved element
            size_t at = (op.uarg(3) & 1) && !t.selfclosing ? d.find('>', t.b) + 1 : t.e;
            if(at > a.b)
            {
                d.insert(at, "\n" + text);
                d.erase(a.b, a.e - a.b);
            }
            else
            {
                d.erase(a.b, a.e - a.b);
                d.insert(at, "\n" + text);
            }
        }
        else if(kind == 3)
        {
            static const char* tags[] = {"field", "group", "data", "type", "composite", "enum", "set", "ref", "validValue", "choice", "sbe:message", "message", "types"};
            const std::string nt = tags[op.uarg(2) % (sizeof(tags) / sizeof(tags[0]))];
            const std::string on = d.substr(a.name_b, a.name_e - a.name_b);
            std::string t2 = text;
            t2.replace(1, on.size(), nt);
            if(!a.selfclosing)
            {
                size_t c = t2.rfind("</");
                if(c != std::string::npos) t2.replace(c + 2, t2.size() - c - 3, nt);
            }
            d.replace(a.b, a.e - a.b, t2);
        }
        else if(kind == 4)
        {
            static const char* wraps[] = {"<composite name=\"wrapC\">", "<group name=\"wrapG\" id=\"77\" dimensionType=\"groupSizeEncoding\">", "<types>", "<sbe:message name=\"wrapM\" id=\"7777\">", "<enum name=\"wrapE\" encodingType=\"uint8\">", "<set name=\"wrapS\" encodingType=\"uint8\">"};
            static const char* wrape[] = {"</composite>", "</group>", "</types>", "</sbe:message>", "</enum>", "</set>"};
            const size_t w = (size_t)(op.uarg(2) % 6);
            d.replace(a.b, a.e - a.b, std::string(wraps[w]) + text + wrape[w]);
        }
        else if(kind == 6)
        {
            // nest: the element (a group or a composite is picked when there is one) wrapped in N copies of
            // itself-like containers: <group>...<group>X</group>...</group>
            std::vector<size_t> cand;
            for(size_t k = 1; k < els.size(); k++)
            {
                const std::string nm = d.substr(els[k].name_b, els[k].name_e - els[k].name_b);
                if((nm == "group" || nm == "composite") && !els[k].selfclosing) cand.push_back(k);
            }
            if(cand.empty()) return;
            const El& c = els[cand[(size_t)(op.uarg(1) % cand.size())]];
            const std::string nm = d.substr(c.name_b, c.name_e - c.name_b);
            const size_t open_end = d.find('>', c.b) + 1;
            const std::string open_tag = d.substr(c.b, open_end - c.b), body = d.substr(c.b, c.e - c.b);
            const size_t n = (size_t)std::min<unsigned long long>(op.uarg(2), 60000);
            std::string out;
            out.reserve(body.size() + n * (open_tag.size() + nm.size() + 4));
            for(size_t k = 0; k < n; k++)
            {
                // unique names so that the nesting itself is valid
                std::string t = open_tag;
                size_t np = t.find("name=\"");
                if(np != std::string::npos) t.insert(np + 6, "n" + std::to_string(k) + "_");
                out += t;
            }
            out += body;
            for(size_t k = 0; k < n; k++) out += "</" + nm + ">";
            d.replace(c.b, c.e - c.b, out);
        }
        else
        {
            // graft: an element of another corpus schema, pasted behind / inside an element of this one
            auto o = g_corpus.files.find(op.sarg(1));
            if(o == g_corpus.files.end()) return;
            std::vector<El> oe = index(o->second);
            if(oe.size() < 3) return;
            const El& src = oe[1 + (size_t)(op.uarg(2) % (oe.size() - 1))];
            const std::string g2 = o->second.substr(src.b, src.e - src.b);
            const size_t at = (op.uarg(3) & 1) && !a.selfclosing ? d.find('>', a.b) + 1 : a.e;
            d.insert(at, "\n" + g2);
        }
    }
    else if(n == "attrcopy")
    {
        // transplant one  name="value"  pair into another element (lost / misdirected edit): the source is
        // picked by attribute *name* first so that rare attributes are as likely as common ones
        struct Attr
        {
            size_t name_b, name_e, val_b, val_e;
        };
        std::vector<Attr> attrs;
        for(size_t i = 0; i + 2 < d.size(); i++)
        {
            if(d[i] != '=' || d[i + 1] != '"') continue;
            size_t nb = i;
            while(nb > 0 && (std::isalnum((unsigned char)d[nb - 1]) || d[nb - 1] == ':' || d[nb - 1] == '_')) nb--;
            size_t ve = d.find('"', i + 2);
            if(nb == i || ve == std::string::npos) continue;
            attrs.push_back({nb, i, i + 2, ve});
            i = ve;
        }
        if(attrs.size() < 2) return;
        std::vector<std::string> names;
        for(auto& a : attrs)
        {
            std::string nm = d.substr(a.name_b, a.name_e - a.name_b);
            if(std::find(names.begin(), names.end(), nm) == names.end()) names.push_back(nm);
        }
        const std::string want = names[(size_t)(op.uarg(0) % names.size())];
        std::vector<size_t> cand;
        for(size_t k = 0; k < attrs.size(); k++)
            if(d.substr(attrs[k].name_b, attrs[k].name_e - attrs[k].name_b) == want) cand.push_back(k);
        const Attr& src = attrs[cand[(size_t)(op.uarg(1) % cand.size())]];
        const Attr& dst = attrs[(size_t)(op.uarg(2) % attrs.size())];
        const std::string text = " " + d.substr(src.name_b, src.val_e + 1 - src.name_b);
        d.insert(dst.val_e + 1, text);
    }
    else if(n == "xml")
    {
        // what XML tooling (editors, pretty printers, other vendors' exporters) legitimately or nearly
        // legitimately does to a file: byte-order mark, DOCTYPE with entities, CDATA, comments, processing
        // instructions, character references, padded numbers, a declaration that lies about the encoding
        std::vector<std::size_t> gts; // positions right after a '>' that closes a tag (outside of the prolog)
        std::vector<std::pair<std::size_t, std::size_t>> texts, avals;
        for(std::size_t i = 0; i + 1 < d.size(); i++)
        {
            if(d[i] != '>') continue;
            if(i > 0 && d[i - 1] != '?') gts.push_back(i + 1);
            std::size_t e = d.find('<', i + 1);
            if(e == std::string::npos) break;
            bool blank = true;
            for(std::size_t k = i + 1; k < e; k++)
                if(!std::isspace((unsigned char)d[k])) blank = false;
            if(!blank && e + 1 < d.size() && d[e + 1] == '/') texts.push_back({i + 1, e});
        }
        for(std::size_t i = 0; i + 2 < d.size(); i++)
            if(d[i] == '=' && d[i + 1] == '"')
            {
                std::size_t ve = d.find('"', i + 2);
                if(ve == std::string::npos) break;
                avals.push_back({i + 2, ve});
                i = ve;
            }
        const u64 k = op.uarg(0);
        switch(op.uarg(1) % 10)
        {
        case 0: d.insert(0, "\xEF\xBB\xBF"); break;
        case 1:
        {
            std::size_t at = d.compare(0, 5, "<?xml") == 0 && d.find("?>") != std::string::npos ? d.find("?>") + 2 : 0;
            d.insert(at, "\n<!DOCTYPE messageSchema [ <!ENTITY e \"7\"> <!ENTITY big \"&e;&e;&e;&e;&e;&e;&e;&e;\"> ]>\n");
            if(!texts.empty() && (k & 1))
            {
                // and use the entity (positions moved: recompute by searching again is overkill - append to the first text)
                std::size_t t = d.find("</", d.find("]>"));
                if(t != std::string::npos) d.insert(t, (k & 2) ? "&big;" : "&e;");
            }
            break;
        }
        case 2:
            if(!texts.empty())
            {
                auto t = texts[(std::size_t)(k % texts.size())];
                d.insert(t.second, "]]>");
                d.insert(t.first, "<![CDATA[");
            }
            break;
        case 3:
            if(!gts.empty()) d.insert(gts[(std::size_t)(k % gts.size())], "<!-- a comment with <tags> & \"quotes\" -->");
            break;
        case 4:
            if(!gts.empty()) d.insert(gts[(std::size_t)(k % gts.size())], "<?tool keep=\"1\"?>");
            break;
        case 5:
            if(!texts.empty())
            {
                auto t = texts[(std::size_t)(k % texts.size())];
                static const char* refs[] = {"&#65;", "&amp;", "&lt;", "&#x31;", "&#49;&#50;", "&quot;", "&apos;", "&#0;", "&#1114112;"};
                d.replace(t.first, t.second - t.first, refs[(k / 7) % 9]);
            }
            break;
        case 6:
            if(!avals.empty())
            {
                auto a = avals[(std::size_t)(k % avals.size())];
                if(a.second > a.first)
                {
                    char buf[16];
                    std::snprintf(buf, sizeof buf, "&#%u;", (unsigned)(unsigned char)d[a.first]);
                    d.replace(a.first, 1, buf);
                }
            }
            break;
        case 7:
            if(!avals.empty())
            {
                // pad the k-th numeric attribute value with white space / line breaks
                std::vector<std::size_t> nums;
                for(std::size_t i = 0; i < avals.size(); i++)
                    if(avals[i].second > avals[i].first && std::isdigit((unsigned char)d[avals[i].first])) nums.push_back(i);
                if(!nums.empty())
                {
                    auto a = avals[nums[(std::size_t)(k % nums.size())]];
                    d.insert(a.second, (k & 1) ? " " : "\n");
                    d.insert(a.first, (k & 2) ? "\t" : " ");
                }
            }
            break;
        case 8:
        {
            std::size_t e = d.find("encoding=\"");
            if(e != std::string::npos && e < 100)
            {
                std::size_t q = d.find('"', e + 10);
                if(q != std::string::npos) d.replace(e + 10, q - e - 10, (k & 1) ? "UTF-16" : (k & 2) ? "ISO-8859-1" : "no-such-encoding");
            }
            break;
        }
        default:
            if(!texts.empty()) d.insert(texts[(std::size_t)(k % texts.size())].first, "&nope;");
            break;
        }
    }
    else if(n == "longname")
    {
        // a (legal) identifier longer than a file name can be: every occurrence of the k-th name="..."
        // value, wherever it is referenced, gets the same long suffix
        std::vector<std::pair<std::size_t, std::size_t>> names;
        for(std::size_t i = d.find(" name=\""); i != std::string::npos; i = d.find(" name=\"", i + 1))
        {
            std::size_t q = d.find('"', i + 7);
            if(q == std::string::npos) break;
            names.push_back({i + 7, q});
        }
        if(!names.empty())
        {
            auto nm = names[(std::size_t)(op.uarg(0) % names.size())];
            const std::string old_name = d.substr(nm.first, nm.second - nm.first);
            if(!old_name.empty())
            {
                const std::string long_name = old_name + std::string((std::size_t)(op.uarg(1) % 2 ? 300 : 250 - std::min<std::size_t>(old_name.size(), 200)), 'x');
                const std::string from = "\"" + old_name + "\"", to = "\"" + long_name + "\"";
                for(std::size_t at = d.find(from); at != std::string::npos; at = d.find(from, at + to.size())) d.replace(at, from.size(), to);
            }
        }
    }
    else if(n == "textdel" || n == "textset")
    {
        // element text nodes  >text</  : lost or replaced
        std::vector<std::pair<size_t, size_t>> texts;
        for(size_t i = 0; i + 1 < d.size(); i++)
        {
            if(d[i] != '>') continue;
            size_t e = d.find('<', i + 1);
            if(e == std::string::npos) break;
            bool blank = true;
            for(size_t k = i + 1; k < e; k++)
                if(!std::isspace((unsigned char)d[k])) blank = false;
            if(!blank && e + 1 < d.size() && d[e + 1] == '/') texts.push_back({i + 1, e});
            i = e;
        }
        if(texts.empty()) return;
        auto t = texts[(size_t)(op.uarg(0) % texts.size())];
        static const char* repl[] = {"", " ", "0", "-1", "255", "65536", "4294967296", "18446744073709551616", "A", "AB", "\t", "1e9", "NaN", "0x1", "+1", "+0", "-0", "+", "-", "+18446744073709551615", "-9223372036854775809", " 1", "1 ", "1.0", "+A",
                                     // white space that survives the XML parser (a blank PCDATA node would be dropped)
                                     "&#32;", "&#9;", "&#x20;&#x20;", "&#10;", "<![CDATA[ ]]>", "<![CDATA[]]>", "<![CDATA[\t]]>", "&#32;1", "1&#32;", "&#0;", "&#xD;"};
        d.replace(t.first, t.second - t.first, n == "textdel" ? "" : repl[op.uarg(1) % (sizeof(repl) / sizeof(repl[0]))]);
    }
    else if(n == "linedup" || n == "lineswap" || n == "linedel")
    {
        std::vector<std::pair<size_t, size_t>> lines; // [b,e) incl. newline
        size_t b = 0;
        while(b < d.size())
        {
            size_t e = d.find('\n', b);
            e = e == std::string::npos ? d.size() : e + 1;
            lines.push_back({b, e});
            b = e;
        }
        if(lines.size() < 3) return;
        const size_t i = (size_t)(op.uarg(0) % lines.size()), j = (size_t)(op.uarg(1) % lines.size());
        const std::string li = d.substr(lines[i].first, lines[i].second - lines[i].first);
        if(n == "linedup")
            d.insert(lines[i].second, li);
        else if(n == "linedel")
            d.erase(lines[i].first, lines[i].second - lines[i].first);
        else if(i != j)
        {
            const std::string lj = d.substr(lines[j].first, lines[j].second - lines[j].first);
            const size_t lo = std::min(i, j), hi = std::max(i, j);
            const std::string& slo = lo == i ? li : lj;
            const std::string& shi = hi == i ? li : lj;
            d.replace(lines[hi].first, shi.size(), slo);
            d.replace(lines[lo].first, slo.size(), shi);
        }
    }
    else if(n == "casetoggle")
    {
        // flip the case of one letter inside a quoted value (type names are looked up case-insensitively)
        std::vector<size_t> idx;
        bool inq = false;
        for(size_t i = 0; i < d.size(); i++)
        {
            if(d[i] == '"') inq = !inq;
            if(inq && std::isalpha((unsigned char)d[i])) idx.push_back(i);
        }
        if(!idx.empty())
        {
            size_t i = idx[(size_t)(op.uarg(0) % idx.size())];
            d[i] = (char)(std::islower((unsigned char)d[i]) ? std::toupper((unsigned char)d[i]) : std::tolower((unsigned char)d[i]));
        }
    }
    else if(n == "digit" || n == "letter" || n == "valbyte")
    {
        // class-preserving corruption of the k-th byte of that class
        std::vector<size_t> idx;
        bool inq = false;
        for(size_t i = 0; i < d.size(); i++)
        {
            unsigned char c = (unsigned char)d[i];
            if(c == '"') inq = !inq;
            bool m = n == "digit" ? (c >= '0' && c <= '9' && inq) : n == "letter" ? (std::isalpha(c) && inq) : (inq && c != '"');
            if(m) idx.push_back(i);
        }
        if(!idx.empty())
        {
            size_t i = idx[(size_t)(op.uarg(0) % idx.size())];
            if(n == "digit")
                d[i] = (char)('0' + op.uarg(1) % 10);
            else if(n == "letter")
                d[i] = (char)((std::islower((unsigned char)d[i]) ? 'a' : 'A') + op.uarg(1) % 26);
            else
                d[i] = (char)(op.uarg(1) & 0xff);
        }
    }
}

// find the top-level <types>..</types> and <message ..>..</message> blocks
struct Block
{
    size_t b, e;
};
std::vector<Block> top_blocks(const std::string& d)
{
    std::vector<Block> out;
    auto scan = [&](const std::string& open_kw, const std::string& close_kw) {
        size_t pos = 0;
        while(true)
        {
            size_t a = d.find(open_kw, pos);
            if(a == std::string::npos) break;
            size_t z = d.find(close_kw, a);
            if(z == std::string::npos) break;
            z = d.find('>', z);
            if(z == std::string::npos) break;
            out.push_back({a, z + 1});
            pos = z + 1;
        }
    };
    scan("<types", "</types");
    scan("<sbe:message ", "</sbe:message");
    std::sort(out.begin(), out.end(), [](const Block& x, const Block& y) { return x.b < y.b; });
    return out;
}

void apply_include_op(const Op& op)
{
    const std::string name = op.sarg(0);
    const std::string path = "/sim/in/" + name;
    auto it = g.fs.find(path);
    if(it == g.fs.end()) return;
    std::string& d = it->second.data;
    const std::string n = op.name.substr(4);
    auto blocks = top_blocks(d);
    auto inc = [&](const std::string& href) { return "<xi:include href=\"" + href + "\"/>"; };
    auto insert_before_end = [&](const std::string& text) {
        size_t z = d.rfind("</");
        if(z == std::string::npos)
            d += text;
        else
            d.insert(z, text);
    };
    if(n == "split")
    {
        // move every k-th top-level block into its own include file; arg1: chain depth
        if(blocks.empty()) return;
        long stride = 1 + (long)(op.uarg(0) % 3), depth = (long)(op.uarg(1) % 3);
        std::string nd;
        size_t last = 0;
        int idx = 0;
        for(size_t i = 0; i < blocks.size(); i++)
        {
            if((long)i % stride != 0) continue;
            std::string part = d.substr(blocks[i].b, blocks[i].e - blocks[i].b);
            std::string fn = "in/part" + std::to_string(idx++) + "_" + name;
            nd += d.substr(last, blocks[i].b - last) + inc(fn);
            last = blocks[i].e;
            std::string content = "<?xml version=\"1.0\"?>\n" + part + "\n";
            // chain: part file only includes the next file which holds the content
            for(long k = 0; k < depth; k++)
            {
                std::string fn2 = fn + ".d" + std::to_string(k);
                g.fs["/sim/" + fn].data = "<?xml version=\"1.0\"?>\n" + inc(fn2) + "\n";
                fn = fn2;
            }
            g.fs["/sim/" + fn].data = content;
        }
        nd += d.substr(last);
        d = nd;
    }
    else if(n == "self")
        insert_before_end(inc("in/" + name));
    else if(n == "cycle")
    {
        long len = 2 + (long)(op.uarg(0) % 3);
        insert_before_end(inc("in/cyc0.xml"));
        for(long k = 0; k < len; k++)
            g.fs["/sim/in/cyc" + std::to_string(k) + ".xml"].data = "<?xml version=\"1.0\"?>\n" + inc(k + 1 == len ? "in/cyc0.xml" : "in/cyc" + std::to_string(k + 1) + ".xml") + "\n";
    }
    else if(n == "sibcycle")
    {
        // a cycle closed through a *non-first* include of a fragment: main -> a; a -> leaf (plain types), a -> b; b -> a
        g.fs["/sim/in/sc_leaf.xml"].data = "<?xml version=\"1.0\"?>\n<types></types>\n";
        g.fs["/sim/in/sc_a.xml"].data = "<?xml version=\"1.0\"?>\n" + inc("in/sc_leaf.xml") + (op.uarg(0) % 2 ? inc("in/sc_leaf.xml") : std::string()) + inc("in/sc_b.xml") + "\n";
        g.fs["/sim/in/sc_b.xml"].data = "<?xml version=\"1.0\"?>\n" + (op.uarg(1) % 2 ? inc("in/sc_leaf.xml") : std::string()) + inc("in/sc_a.xml") + "\n";
        insert_before_end(inc("in/sc_a.xml"));
    }
    else if(n == "diamond")
    {
        // two includes of the same (empty-typed) file
        g.fs["/sim/in/dia.xml"].data = "<?xml version=\"1.0\"?>\n<types></types>\n";
        insert_before_end(inc("in/dia.xml") + inc("in/dia.xml"));
    }
    else if(n == "missing")
        insert_before_end(inc("in/does_not_exist.xml"));
    else if(n == "dir")
    {
        Node dn;
        dn.dir = true;
        g.fs["/sim/in/adir"] = dn;
        insert_before_end(inc("in/adir"));
    }
    else if(n == "empty")
    {
        g.fs["/sim/in/empty.xml"].data = "";
        insert_before_end(inc("in/empty.xml"));
    }
    else if(n == "relative")
    {
        // href relative to the including file instead of the cwd
        g.fs["/sim/in/rel.xml"].data = "<?xml version=\"1.0\"?>\n<types></types>\n";
        insert_before_end(inc("rel.xml"));
    }
    else if(n == "garbage")
    {
        g.fs["/sim/in/garbage.xml"].data = std::string((const char*)op.bytes.data(), op.bytes.size());
        insert_before_end(inc("in/garbage.xml"));
    }
    else if(n == "endless")
    {
        // a path that names a device or a fed FIFO instead of a regular file (/dev/zero, `yes ' '`): every read
        // succeeds in full and end of file never comes. arg0 even: an include target; odd: the schema path itself
        const int fill = 1 + (int)(op.uarg(1) % 2);
        if(op.uarg(0) % 2)
        {
            it->second.data.clear();
            it->second.endless = fill;
        }
        else
        {
            g.fs["/sim/in/zero"].endless = fill;
            insert_before_end(inc("in/zero"));
        }
    }
}

std::vector<std::string> argv_variant(long v, const std::string& schema, long outv)
{
    std::vector<std::string> a = {"sbeppc"};
    const std::string file = input_arg(schema), od = out_dir_arg(outv == 4 ? 0 : outv);
    switch(v)
    {
    case 0: return base_args(schema, outv);
    case 1:
    case 2:
    {
        auto b = base_args(schema, outv);
        std::vector<std::string> extra = v == 1 ? std::vector<std::string>{"--schema-name", "custom_name"} : std::vector<std::string>{"--inject-include", "some/file.hpp"};
        b.insert(b.end() - 1, extra.begin(), extra.end());
        return b;
    }
    case 3: return {"sbeppc", file, "--output-dir"};
    case 4: return {"sbeppc", "--bogus", file};
    case 5: return {"sbeppc", "--output-dir", od, "--", file};
    case 6: return {"sbeppc", "--output-dir", od, file, file};
    case 7: return {"sbeppc"};
    case 8: return {"sbeppc", "--help", file};
    case 9: return {"sbeppc", "--output-dir", od, "--version"};
    case 10: return {"sbeppc", "--"};
    case 11: return {"sbeppc", "--output-dir", od, "in"};
    case 12: return {"sbeppc", "--output-dir", od, "in/nope.xml"};
    case 13: return {"sbeppc", "--output-dir", od, ""};
    case 14: return {"sbeppc", "--schema-name", "1bad name", "--output-dir", od, file};
    case 15: return {"sbeppc", "--schema-name", "class", "--output-dir", od, file};
    case 16: return {"sbeppc", "--output-dir", od, "--output-dir", od, "--schema-name", "a", "--schema-name", "b", file};
    case 17: return {"sbeppc", "--output-dir"};
    case 18: return {"sbeppc", "--schema-name", "", "--output-dir", od, file};
    case 19: return {"sbeppc", "--output-dir", "", file};
    case 20: return {"sbeppc", "--", "--output-dir"};
    case 21: return {"sbeppc", "--inject-include", "", "--output-dir", od, file};
    case 22: return {"sbeppc", "--output-dir", "in/" + schema, file}; // output dir is a file
    default: return base_args(schema, outv);
    }
}

// ------------------------------------------------------------------- exec
struct PendingRun
{
    std::vector<FaultSpec> faults;
    long yank = -1, diskfull = -1;
    long kill = -1, kill_mode = 0;
    u64 kill_seed = 0;
    u64 heap = 0;
};

int kind_of(const std::string& s)
{
    for(int i = 0; i < K_N; i++)
        if(s == kKindName[i]) return i;
    return -1;
}

Result exec_plan(const Plan& plan)
{
    load_corpus();
    install_handlers();
    const std::string prop = plan.get("property");
    g_prop = prop;
    g_isolate = prop == "C20" || plan.geti("isolate") != 0;
    Result res;
    sim::Hasher fp;
    fs_reset();
    g.cond_errno = 0;
    g.cond_prefix.clear();
    g.dirseek_max = true;
    g.now = 1750000000 + 7; // every history starts a few seconds after the reference was taken
    PendingRun pr;
    std::set<std::string> known_sigs;
    for(const std::string& src : {plan.get("known"), sim::options().count("known") ? sim::options()["known"] : std::string()})
    {
        std::istringstream ks(src);
        std::string t;
        while(std::getline(ks, t, ',')) known_sigs.insert(t);
    }
    auto fail = [&](const std::string& cls, const std::string& detail) {
        if(res.violation) return;
        res.violation = true;
        res.signature = prop + ":" + cls;
        res.detail = detail;
    };
    bool mutated = false;
    int runs = 0;
    for(const Op& op : plan.ops)
    {
        if(res.violation) break;
        const std::string& n = op.name;
        if(n == "reset")
        {
            fs_reset();
            mutated = false;
        }
        else if(n == "heap")
            pr.heap = op.uarg(0);
        else if(n == "clock")
        {
            // the simulated wall clock moves on by this many seconds before the next run
            g.now += op.arg(0);
            sim::stats().count(op.arg(0) >= 366L * 86400 ? "history.clock.years_later" : op.arg(0) >= 86400 ? "history.clock.days_later" : "history.clock.seconds_later");
        }
        else if(n == "fault")
        {
            FaultSpec f;
            f.kind = kind_of(op.sarg(0));
            f.outcome = op.sarg(1);
            f.ordinal = op.arg(0);
            f.arg = op.arg(1);
            if(f.kind >= 0) pr.faults.push_back(f);
        }
        else if(n == "yank")
            pr.yank = op.arg(0);
        else if(n == "kill")
        {
            // the next invocation dies at its call number arg0 + 1; arg1: 0 = the process is killed (whatever
            // reached write() survives), 1 = power is lost (nothing was synced: arg2 seeds what survives)
            pr.kill = op.arg(0);
            pr.kill_mode = op.arg(1);
            pr.kill_seed = op.uarg(2);
        }
        else if(n == "diskfull")
            pr.diskfull = op.arg(0);
        else if(n == "dirseek")
            g.dirseek_max = op.arg(0) != 0;
        else if(n == "cond")
        {
            // environment condition for the following runs: @ERRNO @path-prefix ("" clears)
            g.cond_errno = op.sarg(0).empty() ? 0 : errno_of(op.sarg(0));
            g.cond_prefix = op.sarg(1).empty() ? "" : norm(op.sarg(1).c_str());
        }
        else if(n == "put")
        {
            Node nd;
            nd.data.assign((const char*)op.bytes.data(), op.bytes.size());
            g.fs[norm(op.sarg(0).c_str())] = nd;
        }
        else if(n == "putdir")
        {
            Node nd;
            nd.dir = true;
            g.fs[norm(op.sarg(0).c_str())] = nd;
        }
        else if(n == "stage")
        {
            // place a pristine copy of a corpus schema in the simulated input dir
            auto it = g_corpus.files.find(op.sarg(0));
            if(it != g_corpus.files.end()) g.fs["/sim/in/" + op.sarg(0)].data = it->second;
        }
        else if(n.rfind("mut.", 0) == 0)
        {
            apply_mutation(op);
            mutated = true;
            sim::stats().count("fault.applied." + n);
        }
        else if(n.rfind("inc.", 0) == 0)
        {
            apply_include_op(op);
            mutated = true;
            sim::stats().count("fsconfig.applied." + n);
        }
        else if(n == "prefill")
        {
            // what an earlier, different or interrupted run left in the output dir
            const std::string schema = op.sarg(0);
            const long outv = op.arg(0), how = op.arg(1);
            const Ref& ref = reference(schema, outv);
            sim::Rng r(op.uarg(2) + 1);
            sim::Rng rt(op.uarg(2) + 7777);
            for(auto& kv : ref.files)
            {
                if(r.chance(1, 3)) continue;
                std::string par = parent_of(kv.first);
                std::vector<std::string> chain;
                while(par != "/" && g.fs.find(par) == g.fs.end())
                {
                    chain.push_back(par);
                    par = parent_of(par);
                }
                for(auto i = chain.rbegin(); i != chain.rend(); ++i)
                {
                    Node dn;
                    dn.dir = true;
                    g.fs[*i] = dn;
                }
                Node fnode;
                switch(how % 9)
                {
                case 7:
                    // an older revision's file of exactly the same size but different content
                    fnode.data = kv.second;
                    if(!fnode.data.empty()) fnode.data[(size_t)r.below(fnode.data.size())] ^= 0x20;
                    break;
                case 5:
                    // a directory sits where a generated header must go (only sometimes)
                    if(r.chance(1, 6))
                    {
                        fnode.dir = true;
                        fnode.data.clear();
                    }
                    else
                        fnode.data = kv.second;
                    break;
                case 6:
                    // a regular file sits where one of the output directories must go (decided below)
                    fnode.data = kv.second;
                    break;
                case 4:
                    // a previous run's file that was made read-only (only some of them)
                    fnode.data = kv.second;
                    fnode.readonly = r.chance(1, 4);
                    break;
                case 0: fnode.data = kv.second + std::string(1 + r.below(3000), '#'); break; // longer than the new content
                case 1: fnode.data = kv.second.substr(0, kv.second.size() / 2); break;        // torn
                case 2: fnode.data = "stale content of another schema\n"; break;
                default: fnode.data = kv.second; break; // identical
                }
                {
                    // when the leftover was written: before the schema file, together with it, after it, just now,
                    // or in the future of the simulated clock (a copied tree, a clock that was set back)
                    static const long long kWhen[] = {1730000000, 1740000000, 1745000000, 0, 2065000000};
                    long long w = kWhen[rt.below(5)];
                    fnode.mtime = w ? w : g.now;
                }
                g.fs[kv.first] = fnode;
            }
            if(how % 9 == 6 && !ref.files.empty())
            {
                // replace one directory of the tree (with everything below it) by a regular file
                std::vector<std::string> dirs;
                for(auto& kv : g.fs)
                    if(kv.second.dir && kv.first.rfind(out_root_abs(outv), 0) == 0 && kv.first != "/sim" && kv.first != "/sim/in" && kv.first != "/sim/far" && kv.first != "/sim/far/deep") dirs.push_back(kv.first);
                if(!dirs.empty())
                {
                    const std::string victim = dirs[(size_t)r.below(dirs.size())];
                    for(auto it = g.fs.begin(); it != g.fs.end();)
                        if(it->first == victim || it->first.rfind(victim + "/", 0) == 0)
                            it = g.fs.erase(it);
                        else
                            ++it;
                    Node fn;
                    fn.data = "not a directory\n";
                    g.fs[victim] = fn;
                }
            }
            if(how % 9 == 8 && !ref.files.empty())
            {
                // one leaf directory of the tree is a symbolic link to a directory elsewhere (a store shared
                // between build trees): whatever is in it moves to the link's target
                std::vector<std::string> leaves;
                for(auto& kv : g.fs)
                {
                    if(!kv.second.dir || kv.first.rfind(out_root_abs(outv) + "/", 0) != 0) continue;
                    if(kv.first == "/sim/in" || kv.first.rfind("/sim/in/", 0) == 0 || kv.first.rfind("/sim/store", 0) == 0 || kv.first == "/sim/far" || kv.first == "/sim/far/deep") continue;
                    bool has_subdir = false, has_file = false;
                    for(auto& kv2 : g.fs)
                        if(kv2.first.rfind(kv.first + "/", 0) == 0) (kv2.second.dir ? has_subdir : has_file) = true;
                    if(!has_subdir && has_file) leaves.push_back(kv.first);
                }
                if(!leaves.empty())
                {
                    const std::string victim = leaves[(size_t)r.below(leaves.size())];
                    const std::string store = "/sim/store/kept/" + victim.substr(victim.rfind('/') + 1);
                    Node dn;
                    dn.dir = true;
                    g.fs["/sim/store"] = dn;
                    g.fs["/sim/store/kept"] = dn;
                    g.fs[store] = dn;
                    std::vector<std::pair<std::string, Node>> moved;
                    for(auto it = g.fs.begin(); it != g.fs.end();)
                        if(it->first.rfind(victim + "/", 0) == 0)
                        {
                            moved.push_back({store + it->first.substr(victim.size()), it->second});
                            it = g.fs.erase(it);
                        }
                        else
                            ++it;
                    for(auto& m : moved) g.fs[m.first] = m.second;
                    Node ln;
                    if(r.chance(1, 2))
                        ln.link = store;
                    else
                    {
                        // relative to the link's own directory
                        std::string up;
                        for(std::string q = parent_of(victim); q != "/sim"; q = parent_of(q)) up += "../";
                        ln.link = up + store.substr(5);
                    }
                    g.fs[victim] = ln;
                    sim::stats().count("history.prefill.symlinked_directory");
                }
            }
            sim::stats().count("history.prefill");
        }
        else if(n == "run")
        {
            runs++;
            const std::string schema = op.sarg(0);
            const long outv = op.arg(0), argv_v = op.arg(1);
            if(g_corpus.files.find(schema) == g_corpus.files.end())
            {
                res.signature = "HARNESS:unknown-schema";
                return res;
            }
            // third argument: how the schema path is spelled on this command line (references always use "in/<name>")
            struct SpellingGuard
            {
                long saved;
                ~SpellingGuard() { g_input_spelling = saved; }
            } spelling_guard{g_input_spelling};
            g_input_spelling = op.arg(2);
            if(g_input_spelling) sim::stats().count("history.input_path_spelled_differently");
            const bool is_c20 = prop == "C20";
            if(g.fs.find("/sim/in/" + schema) == g.fs.end()) g.fs["/sim/in/" + schema].data = g_corpus.files[schema];
            const Ref* ref = nullptr;
            if(is_c20)
            {
                // the reference of exactly this command line (custom schema name / injected include change the files)
                ref = &reference(schema, outv, argv_v < 3 ? argv_v : 0);
                if(!ref->ok)
                {
                    if(ref->why.find("different files") != std::string::npos)
                        fail("nondeterministic-output", ref->why + " (" + schema + ")");
                    else if(ref->missing)
                        fail("exit0-file-missing", ref->why + " (" + schema + ")");
                    else
                    {
                        res.signature = "HARNESS:no-reference";
                        res.detail = ref->why;
                        sim::stats().count("harness.no_reference");
                    }
                    break;
                }
            }
            // snapshot of pre-existing files under the output root (for the residue oracle)
            std::map<std::string, std::string> before;
            for(auto& kv : g.fs)
                if(!kv.second.dir && kv.second.link.empty()) before[kv.first] = kv.second.data;
            g_huge_length = false;
            for(auto& kv : g.fs)
            {
                if(kv.second.dir || kv.first.rfind("/sim/in/", 0) != 0) continue;
                const std::string& d = kv.second.data;
                for(size_t at = d.find("length=\""); at != std::string::npos; at = d.find("length=\"", at + 1))
                {
                    size_t k = at + 8, digits = 0;
                    while(k < d.size() && std::isdigit((unsigned char)d[k]))
                    {
                        k++;
                        digits++;
                    }
                    if(digits >= 7) g_huge_length = true;
                }
            }
            g_nesting_depth = 0;
            for(auto& kv : g.fs)
            {
                if(kv.second.dir || kv.first.rfind("/sim/in/", 0) != 0) continue;
                const std::string& d = kv.second.data;
                long depth = 0, deepest = 0;
                for(size_t i = 0; i + 1 < d.size(); i++)
                {
                    if(d[i] != '<') continue;
                    if(d[i + 1] == '/')
                        depth--;
                    else if(d[i + 1] != '?' && d[i + 1] != '!')
                    {
                        size_t gt = d.find('>', i);
                        if(gt != std::string::npos && d[gt - 1] != '/') depth++;
                    }
                    deepest = std::max(deepest, depth);
                }
                g_nesting_depth = std::max(g_nesting_depth, deepest);
            }
            perturb_heap(pr.heap);
            g_kill_next = pr.kill;
            RunOutcome ro = run_sbeppc(argv_variant(argv_v, schema, outv), pr.faults, pr.yank, pr.diskfull);
            g_kill_next = -1;
            perturb_heap(0);
            if(ro.kind == "KILLED")
            {
                // Crash and restart: the invocation ended without an exit status, so there is nothing to judge
                // about it. What it had handed to the file system stays (process kill), or - power loss, nothing
                // was ever synced - any part of that may be gone. The runs that follow in the history work on
                // this directory and get the full oracle (exit 0 => every file complete and byte-identical).
                sim::stats().count(pr.kill_mode ? "fault.fired.kill.power_loss" : "fault.fired.kill.process");
                sim::stats().tuple(std::string("C20|") + schema + "|kill@" + std::to_string(pr.kill) + "|" + (pr.kill_mode ? "power" : "proc"));
                if(pr.kill_mode)
                {
                    sim::Rng r(pr.kill_seed + 0x9e37);
                    std::vector<std::string> touched;
                    for(auto& kv : g.fs)
                    {
                        if(kv.second.dir || !kv.second.link.empty() || kv.first.rfind("/sim/in/", 0) == 0) continue;
                        auto b = before.find(kv.first);
                        if(b == before.end() || b->second != kv.second.data) touched.push_back(kv.first);
                    }
                    for(auto& path : touched)
                    {
                        Node& nd = g.fs[path];
                        auto b = before.find(path);
                        switch(r.below(6))
                        {
                        case 0: break; // made it to the medium
                        case 1: nd.data.resize((size_t)r.below(nd.data.size() + 1)); break; // a prefix (often nothing at all)
                        case 2: nd.data.clear(); break; // the classic zero-length file
                        case 3:
                            // the size was journalled, the blocks were not: a tail of zeros
                            if(!nd.data.empty())
                            {
                                size_t from = (size_t)r.below(nd.data.size());
                                std::fill(nd.data.begin() + (long)from, nd.data.end(), '\0');
                            }
                            break;
                        case 4:
                            // neither the truncation nor the new content: what was there before the run
                            if(b != before.end())
                                nd.data = b->second;
                            else
                                g.fs.erase(path);
                            break;
                        default:
                            if(b == before.end()) g.fs.erase(path);
                            break;
                        }
                    }
                    // directories this run created and that are empty now may be gone as well
                    for(bool again = true; again;)
                    {
                        again = false;
                        for(auto it = g.fs.begin(); it != g.fs.end(); ++it)
                        {
                            if(!it->second.dir || !it->second.created_by_run) continue;
                            bool has_child = false;
                            for(auto& kv2 : g.fs)
                                if(kv2.first.size() > it->first.size() && kv2.first.rfind(it->first + "/", 0) == 0) has_child = true;
                            if(!has_child && r.chance(1, 2))
                            {
                                g.fs.erase(it);
                                again = true;
                                break;
                            }
                            it->second.created_by_run = false; // decided: it stays
                        }
                    }
                }
                fp.add((u64)ro.trace.size());
                for(auto& kv : g.fs)
                {
                    fp.add(kv.first);
                    fp.add(kv.second.data);
                }
                pr = PendingRun{};
                continue;
            }
            if(pr.kill >= 0) sim::stats().count("fault.not_reached.kill");
            sim::stats().count("runs");
            sim::stats().count(ro.rc == 0 ? "runs.rc0" : "runs.rc_nonzero");
            if(!ro.hard.empty()) sim::stats().count("runs.with_hard_fault_fired");
            if(!ro.soft.empty()) sim::stats().count("runs.with_soft_fault_fired");
            if(ro.hard.empty() && !ro.soft.empty() && ro.rc == 0) sim::stats().count("probe.soft_fault_absorbed");
            for(auto& f : ro.faults)
                if(f.fired) sim::stats().tuple(std::string(is_c20 ? "C20|" : "C09|") + schema + "|" + kKindName[f.kind] + "#" + std::to_string(f.ordinal) + "|" + f.outcome);
            fp.add((u64)ro.rc);
            fp.add(ro.kind);
            fp.add(ro.out);
            fp.add((u64)ro.trace.size());
            for(auto& kv : g.fs)
            {
                fp.add(kv.first);
                fp.add(kv.second.data);
            }
            if(ro.bypass)
            {
                res.signature = "HARNESS:bypass";
                res.detail = "a simulated path was opened through open()/openat() (" + std::to_string(ro.bypass) + ")";
                break;
            }
            const std::string ctx = " [schema " + schema + ", argv#" + std::to_string(argv_v) + ", out#" + std::to_string(outv) + ", rc=" + std::to_string(ro.rc) + ", hard faults: " + (ro.hard.empty() ? "none" : ro.hard[0]) + (ro.hard.size() > 1 ? " +" + std::to_string(ro.hard.size() - 1) : "") + "; stdout: " + ro.out.substr(0, 160) + "]";
            if(ro.kind != "EXIT")
            {
                std::string k = ro.kind;
                for(auto& c : k)
                    if(c == ' ') c = '_';
                if(k == "UNCAUGHT:std::bad_alloc" || k == "UNCAUGHT:std::length_error") k += resource_suffix();
                if(known_sigs.count(prop + ":" + k))
                {
                    if(std::find(res.known.begin(), res.known.end(), prop + ":" + k) == res.known.end()) res.known.push_back(prop + ":" + k);
                    sim::stats().count("known." + prop + ":" + k);
                    pr = PendingRun{};
                    continue;
                }
                fail(k, "an exception escaped main(): the shipped binary calls std::terminate" + ctx);
                break;
            }
            if(ro.rc != 0 && !ro.diag)
            {
                fail("nonzero-without-diagnostic", "non-zero exit status but no diagnostic line" + ctx);
                break;
            }
            if(!is_c20)
            {
                // undefined behaviour made visible by the freed-memory seam: the fill pattern of released
                // blocks shows up in what sbeppc printed or wrote (and no input file contains it)
                for(int which = 0; which < 2 && !res.violation; which++)
                {
                    const std::string pat(which ? kFreshPattern : kFreedPattern, 8);
                    bool in_input = false, hit = ro.out.find(pat) != std::string::npos;
                    std::string where = "its diagnostics";
                    for(auto& kv : g.fs)
                    {
                        if(kv.second.dir || !kv.second.link.empty()) continue;
                        const bool input = kv.first.rfind("/sim/in/", 0) == 0;
                        if(kv.second.data.find(pat) == std::string::npos) continue;
                        auto b = before.find(kv.first);
                        if(input || (b != before.end() && b->second.find(pat) != std::string::npos))
                            in_input = true;
                        else
                        {
                            hit = true;
                            where = kv.first;
                        }
                    }
                    if(hit && !in_input)
                    {
                        if(which)
                            fail("UB:uninitialised-memory-in-output", "bytes of a fresh heap block that nothing was stored in (fill pattern 0xCD of the heap seam) appear in " + where + ctx);
                        else
                            fail("UB:freed-memory-in-output", "bytes of a block that had already been released (fill pattern 0xDD of the freed-memory seam) appear in " + where + ": use after free" + ctx);
                    }
                }
                sim::stats().count("probe.heap_patterns_scanned");
                if(res.violation) break;
            }
            if(is_c20)
            {
                if(ro.hard_output && ro.rc == 0)
                {
                    // which file is damaged (for the report)
                    std::string bad;
                    for(auto& kv : ref->files)
                    {
                        auto it = g.fs.find(resolve(kv.first));
                        if(it == g.fs.end() || it->second.data != kv.second)
                        {
                            bad = kv.first + (it == g.fs.end() ? " missing" : " has " + std::to_string(it->second.data.size()) + " of " + std::to_string(kv.second.size()) + " bytes");
                            break;
                        }
                    }
                    fail("exit0-after-io-failure", "an output-side I/O call failed yet sbeppc exited 0; " + (bad.empty() ? std::string("(all files happen to be complete)") : bad) + ctx);
                    break;
                }
                if(ro.hard_input && ro.rc == 0)
                {
                    fail("exit0-after-input-failure", "reading the schema failed yet sbeppc exited 0" + ctx);
                    break;
                }
                if(ro.rc == 0 && argv_v < 3)
                {
                    // every directory of the tree must exist - as a directory
                    for(auto& dpath : ref->dirs)
                    {
                        auto it = g.fs.find(resolve(dpath)); // a link to a directory is one
                        if(it == g.fs.end() || !it->second.dir)
                        {
                            fail("exit0-directory-missing", "exit 0 but the directory " + dpath + (it == g.fs.end() ? " does not exist" : " is a regular file: its creation failed") + ctx);
                            break;
                        }
                    }
                    if(res.violation) break;
                    for(auto& kv : ref->files)
                    {
                        std::string path = kv.first;
                        auto it = g.fs.find(resolve(path));
                        const std::string* want = &kv.second;
                        if(it == g.fs.end())
                        {
                            fail("exit0-file-missing", "exit 0 but " + path + " does not exist" + ctx);
                            break;
                        }
                        if(it->second.data != *want)
                        {
                            const bool faulted = !ro.hard.empty() || !ro.soft.empty();
                            fail(faulted ? "exit0-file-incomplete" : "rerun-differs", "exit 0 but " + path + " has " + std::to_string(it->second.data.size()) + " bytes, reference " + std::to_string(want->size()) + (faulted ? "" : " (no fault fired: the output depends on directory contents, heap layout, the wall clock or earlier runs)") + ctx);
                            break;
                        }
                    }
                    if(res.violation) break;
                }
                // a non-zero exit without any failed call (e.g. a regular file found where a directory is
                // needed, detected through stat alone) is not against the statement: counted only
                if(ro.hard.empty() && ro.soft.empty() && ro.rc != 0 && argv_v < 3 && !mutated) sim::stats().count("probe.nonzero_exit_without_failed_call");
            }
            else
            {
                // C09: rejected => diagnostic and no generated files left behind. A run that ended because
                // the file system refused an output call (a name longer than NAME_MAX, an unusable output
                // directory) was not rejected: what it leaves behind is C20's subject
                if(ro.rc != 0 && ro.hard_output)
                    sim::stats().count("c09.failed_on_output_side");
                else if(ro.rc != 0)
                {
                    for(auto& kv : g.fs)
                    {
                        if(kv.second.dir || !kv.second.link.empty()) continue;
                        auto b = before.find(kv.first);
                        if(b == before.end())
                        {
                            fail("residue-after-rejection", "rejected (rc=" + std::to_string(ro.rc) + ") but left " + kv.first + " behind" + ctx);
                            break;
                        }
                        if(b->second != kv.second.data)
                        {
                            fail("residue-after-rejection", "rejected but modified " + kv.first + ctx);
                            break;
                        }
                    }
                    if(res.violation) break;
                    sim::stats().count("c09.rejected_clean");
                }
                else
                    sim::stats().count("c09.accepted");
            }
            pr = PendingRun{};
        }
        else
        {
            res.signature = "HARNESS:unknown-op:" + n;
            return res;
        }
    }
    res.fingerprint = fp.h;
    return res;
}

// -------------------------------------------------------------- generator
const char* kMkdirErr[] = {"EACCES", "ENOSPC", "EROFS", "EIO"};
const char* kOpenWErr[] = {"EACCES", "ENOSPC", "EMFILE", "EROFS", "EIO"};
const char* kWriteErr[] = {"ENOSPC", "EIO", "EDQUOT", "EFBIG"};
const char* kOpenRErr[] = {"ENOENT", "EACCES", "EIO", "EMFILE"};

std::vector<std::string> tier_schemas(const std::string& tier, const std::string& prop)
{
    // a whole-corpus pass costs well under a second, so both tiers use every schema
    (void)tier;
    load_corpus();
    if(prop != "C20") return g_corpus.names;
    g_isolate = true;
    install_handlers();
    std::vector<std::string> out;
    for(auto& n : g_corpus.names)
    {
        // only a schema whose plain command line is rejected is left out (e.g. traits_test_schema2.xml
        // needs --schema-name); one whose fault-free run exits 0 with unstable or missing files stays in
        // and is reported by the `run` op
        const Ref& r = reference(n, 0);
        if(r.ok || r.missing || r.why.find("different files") != std::string::npos) out.push_back(n);
    }
    return out;
}

// All single faults of one fault-free run (the enumeration space of C20).
const int K_KILLPOINT = -2; // pseudo call kind of the enumeration: not a failing call but the death of the process at call `ordinal`
struct EnumPoint
{
    std::string schema;
    int kind;
    long ordinal;
    std::string outcome;
    long arg;
};
std::map<std::string, std::vector<EnumPoint>> g_enum_cache;

const std::vector<EnumPoint>& enumeration(const std::string& tier)
{
    auto it = g_enum_cache.find(tier);
    if(it != g_enum_cache.end()) return it->second;
    install_handlers();
    std::vector<EnumPoint> pts;
    for(auto& s : tier_schemas(tier, "C20"))
    {
        const Ref& ref = reference(s, 0);
        if(!ref.ok)
        {
            // not enumerable, but must still be run once so that the reason is reported
            pts.push_back({s, K_STAT, 1000000, "EACCES", 0});
            continue;
        }
        long cnt[K_N] = {0};
        for(auto& t : ref.trace)
        {
            long ord = cnt[t.kind]++;
            auto add = [&](const std::string& o, long arg = 0) { pts.push_back({s, t.kind, ord, o, arg}); };
            switch(t.kind)
            {
            case K_MKDIR:
                for(auto e : kMkdirErr) add(e);
                break;
            case K_OPENW:
                for(auto e : kOpenWErr) add(e);
                break;
            case K_WRITE:
                for(auto e : kWriteErr) add(std::string("ERR:") + e);
                for(long j : {1L, t.len / 2, t.len - 1})
                {
                    add("PARTIAL:ENOSPC", j);
                    add("PARTIAL:EIO", j);
                    add("SHORT", j);
                }
                add("EINTR");
                break;
            case K_CLOSEW:
                add("KEEP:EIO");
                add("DROP:EIO");
                add("DROP:ENOSPC");
                break;
            case K_OPENR:
                for(auto e : kOpenRErr) add(e);
                break;
            case K_READ:
                add("ERR:EIO");
                add("SHORT", 1);
                add("SHORT", t.len / 2);
                add("EINTR");
                break;
            case K_STAT:
                for(auto e : {"EACCES", "EIO", "ENAMETOOLONG", "ELOOP"}) add(e);
                break;
            case K_RENAME:
                for(auto e : {"EACCES", "ENOSPC", "EIO", "EROFS"}) add(e);
                break;
            default: break;
            }
        }
        // crash enumeration: the invocation dies at every call of its fault-free trace (and once after the last
        // one: everything written, nothing flushed by exit) - as a process kill, and as a power loss under three
        // different seeds of what survives; the plan then restarts the same command on what is left
        for(long k = 0; k <= (long)ref.trace.size(); k++)
        {
            pts.push_back({s, K_KILLPOINT, k, "proc", 0});
            for(long sd = 1; sd <= 3; sd++) pts.push_back({s, K_KILLPOINT, k, "power", sd * 7919 + k});
        }
    }
    return g_enum_cache[tier] = pts;
}

Plan gen_c20(u64 seed, const std::string& tier)
{
    Plan p;
    p.set("property", "C20");
    p.set("engine", "fsim");
    const u64 idx = (seed & 0xffffffffULL);
    const auto& en = enumeration(tier);
    auto fault_op = [](const EnumPoint& e) {
        Op f;
        f.name = "fault";
        f.s = {kKindName[e.kind], e.outcome};
        f.a = {e.ordinal, e.arg};
        return f;
    };
    auto run_op = [](const std::string& schema, long outv, long argv_v) {
        Op r;
        r.name = "run";
        r.s = {schema};
        r.a = {outv, argv_v};
        return r;
    };
    if(idx >= 1 && idx <= en.size())
    {
        // enumerated: exactly one fault, fresh file system
        const EnumPoint& e = en[idx - 1];
        if(e.kind == K_KILLPOINT)
        {
            p.set("mode", "enumerated-crash-point");
            Op k;
            k.name = "kill";
            k.a = {e.ordinal, e.outcome == "power" ? 1 : 0, e.arg};
            p.ops.push_back(k);
            p.ops.push_back(run_op(e.schema, 0, 0)); // dies
            p.ops.push_back(run_op(e.schema, 0, 0)); // the restart: judged in full
            return p;
        }
        p.set("mode", "enumerated-single-fault");
        p.ops.push_back(fault_op(e));
        p.ops.push_back(run_op(e.schema, 0, 0));
        return p;
    }
    // explored: histories of runs on one file system, multi-fault, yank, disk full, heap layout
    p.set("mode", "explored-history");
    sim::Rng root(seed);
    sim::Rng wl = root.fork("workload"), fl = root.fork("faults");
    auto schemas = tier_schemas(tier, "C20");
    if(schemas.empty()) schemas = g_corpus.names; // no schema compiles fault-free: the run op reports why (no verdict)
    const int nruns = (int)wl.range(1, 4);
    // swarm: which fault kinds are enabled in this plan
    const bool en_single = fl.chance(2, 3), en_yank = fl.chance(1, 4), en_full = fl.chance(1, 4), en_heap = fl.chance(1, 2), en_prefill = fl.chance(1, 3), en_cond = fl.chance(1, 6);
    const bool en_clock = root.fork("clock").chance(1, 2);
    const bool en_kill = root.fork("kill").chance(1, 3);
    long outv = (long)wl.below(6);
    for(int i = 0; i < nruns; i++)
    {
        const std::string s = schemas[wl.below(schemas.size())];
        if(wl.chance(1, 5)) outv = (long)wl.below(6);
        if(i == 0 && en_prefill)
        {
            Op pf;
            pf.name = "prefill";
            pf.s = {wl.chance(1, 2) ? s : schemas[wl.below(schemas.size())]};
            pf.a = {outv, (long)wl.below(9), (long)wl.below(1000)};
            p.ops.push_back(pf);
        }
        const bool last = i + 1 == nruns;
        if(en_cond)
        {
            // a persistent condition (no search permission, name too long, symlink loop) on the output root,
            // lifted again before the last run of the history
            Op c;
            c.name = "cond";
            static const char* errs[] = {"EACCES", "ENAMETOOLONG", "ELOOP", "EIO"};
            if(last && nruns > 1)
                c.s = {"", ""};
            else
                c.s = {errs[fl.below(4)], out_root_abs(outv)};
            p.ops.push_back(c);
        }
        if(en_clock && (i > 0 || fl.chance(1, 2)))
        {
            // time passes between the runs of a history: seconds, days, into the next year, years
            static const long kDelta[] = {1, 61, 3601, 86400, 40L * 86400, 200L * 86400, 366L * 86400, 5L * 366 * 86400};
            Op c;
            c.name = "clock";
            c.a = {(long long)kDelta[fl.below(8)]};
            p.ops.push_back(c);
        }
        if(en_heap)
        {
            Op h;
            h.name = "heap";
            h.a = {(long long)(fl.next() >> 16)};
            p.ops.push_back(h);
        }
        // faults hit the earlier runs of a history more often than the last, so that a clean rerun follows
        if(fl.chance(last && nruns > 1 ? 1 : 2, 3))
        {
            const Ref& ref = reference(s, outv);
            long cnt[K_N] = {0};
            for(auto& t : ref.trace) cnt[t.kind]++;
            if(en_single)
            {
                int nf = (int)fl.range(1, 3);
                for(int k = 0; k < nf; k++)
                {
                    // pick a point from the enumeration alphabet on this schema's trace
                    int kind = (int)fl.below(8);
                    static const int kinds[] = {K_MKDIR, K_OPENW, K_WRITE, K_WRITE, K_CLOSEW, K_READ, K_STAT, K_RENAME};
                    kind = kinds[kind];
                    if(!cnt[kind]) continue;
                    EnumPoint e{s, kind, (long)fl.below((u64)cnt[kind]), "", 0};
                    switch(kind)
                    {
                    case K_MKDIR: e.outcome = kMkdirErr[fl.below(4)]; break;
                    case K_OPENW: e.outcome = kOpenWErr[fl.below(5)]; break;
                    case K_WRITE:
                        switch(fl.below(4))
                        {
                        case 0: e.outcome = std::string("ERR:") + kWriteErr[fl.below(4)]; break;
                        case 1:
                            e.outcome = std::string("PARTIAL:") + kWriteErr[fl.below(4)];
                            e.arg = (long)fl.below(5000);
                            break;
                        case 2:
                            e.outcome = "SHORT";
                            e.arg = (long)fl.below(5000);
                            break;
                        default: e.outcome = "EINTR"; break;
                        }
                        break;
                    case K_CLOSEW: e.outcome = fl.chance(1, 2) ? "KEEP:EIO" : "DROP:ENOSPC"; break;
                    case K_STAT: e.outcome = fl.chance(1, 2) ? "EACCES" : "ELOOP"; break;
                    case K_RENAME: e.outcome = fl.chance(1, 2) ? "EACCES" : "ENOSPC"; break;
                    default: e.outcome = fl.chance(1, 2) ? "ERR:EIO" : "SHORT"; e.arg = 1 + (long)fl.below(100); break;
                    }
                    p.ops.push_back(fault_op(e));
                }
            }
            if(en_yank && fl.chance(1, 2))
            {
                Op y;
                y.name = "yank";
                y.a = {(long)fl.below(ref.trace.size() + 1)};
                p.ops.push_back(y);
            }
            if(en_full && fl.chance(1, 2))
            {
                long total = 0;
                for(auto& kv : ref.files) total += (long)kv.second.size();
                Op d;
                d.name = "diskfull";
                d.a = {(long)fl.below((u64)total + 1)};
                p.ops.push_back(d);
            }
        }
        bool killed_here = false;
        if(en_kill)
        {
            // crash and restart: the invocation dies at a seeded call of its trace (process kill or power loss)
            sim::Rng kr = root.fork("kill").fork((u64)i + 1);
            if(kr.chance(1, 2))
            {
                const Ref& ref = reference(s, outv);
                Op k;
                k.name = "kill";
                k.a = {(long long)kr.below(ref.trace.size() + 1), (long long)kr.below(2), (long long)(kr.next() >> 20)};
                p.ops.push_back(k);
                killed_here = true;
            }
        }
        p.ops.push_back(run_op(s, outv, wl.chance(1, 8) ? (long)wl.range(1, 2) : 0));
        if(killed_here && last)
        {
            // the restart: same schema, same directory, nothing in the way
            p.ops.push_back(run_op(s, outv, 0));
        }
        {
            // a quarter of the runs of a history spell the schema path differently (drawn from a fork)
            sim::Rng sp = root.fork("input-spelling").fork((u64)p.ops.size());
            if(sp.chance(1, 4)) p.ops.back().a.push_back((long long)sp.range(1, 4));
        }
        if(wl.chance(1, 10))
        {
            Op r;
            r.name = "reset";
            p.ops.push_back(r);
        }
    }
    return p;
}

Plan gen_c09(u64 seed, const std::string& tier)
{
    Plan p;
    p.set("property", "C09");
    p.set("engine", "fsim");
    sim::Rng root(seed);
    sim::Rng wl = root.fork("workload"), fl = root.fork("faults");
    auto schemas = tier_schemas(tier, "C09");
    const std::string s = schemas[wl.below(schemas.size())];
    const std::string& content = g_corpus.files[s];
    Op st;
    st.name = "stage";
    st.s = {s};
    p.ops.push_back(st);
    // swarm: one family of environment configuration dominates a run
    const int family = (int)fl.below(17);
    auto mut = [&](const std::string& name, std::vector<long long> a, std::vector<std::string> extra = {}) {
        Op m;
        m.name = name;
        m.s = {s};
        for(auto& e : extra) m.s.push_back(e);
        m.a = a;
        p.ops.push_back(m);
    };
    long argv_v = 0;
    if(family <= 4)
    {
        // storage faults on the stored schema bytes
        p.set("mode", "storage-fault");
        int n = (int)fl.range(1, 3);
        for(int i = 0; i < n; i++)
        {
            switch(fl.below(10))
            {
            case 0:
            case 1: mut("mut.truncate", {(long long)fl.below(content.size() + 1)}); break;
            case 2: mut("mut.flip", {(long long)fl.below(content.size() + 1), (long long)(1u << fl.below(8))}); break;
            case 3: mut("mut.zero", {(long long)fl.below(64)}); break;
            case 4: mut("mut.dup", {(long long)fl.below(64)}); break;
            case 5: mut("mut.swap", {(long long)fl.below(64), (long long)fl.below(64)}); break;
            case 6: mut("mut.stale", {(long long)fl.below(64)}, {g_corpus.names[fl.below(g_corpus.names.size())]}); break;
            case 7: mut("mut.digit", {(long long)fl.below(100000), (long long)fl.below(10)}); break;
            case 8: mut("mut.letter", {(long long)fl.below(100000), (long long)fl.below(26)}); break;
            default: mut("mut.valbyte", {(long long)fl.below(100000), (long long)fl.below(256)}); break;
            }
        }
    }
    else if(family <= 6)
    {
        p.set("mode", "include-graph");
        static const char* incs[] = {"inc.split", "inc.split", "inc.self", "inc.cycle", "inc.diamond", "inc.missing", "inc.dir", "inc.empty", "inc.relative", "inc.garbage", "inc.sibcycle", "inc.endless"};
        const char* k = incs[fl.below(12)];
        // an endless input costs a quarter of a gigabyte of reading even when it is handled well: one in eight stays
        if(std::string(k) == "inc.endless" && !fl.chance(1, 8)) k = "inc.split";
        Op m;
        m.name = k;
        m.s = {s};
        m.a = {(long long)fl.below(9), (long long)fl.below(9)};
        if(std::string(k) == "inc.garbage")
        {
            m.has_bytes = true;
            size_t len = (size_t)fl.below(40);
            for(size_t i = 0; i < len; i++) m.bytes.push_back((unsigned char)(fl.chance(1, 2) ? "<>/\"= abc?!-"[fl.below(12)] : fl.next()));
        }
        p.ops.push_back(m);
        if(std::string(k) == "inc.dir" && fl.chance(1, 2))
        {
            Op d;
            d.name = "dirseek";
            d.a = {0};
            p.ops.push_back(d);
        }
        if(fl.chance(1, 4)) mut("mut.truncate", {(long long)fl.below(content.size() + 1)});
    }
    else if(family == 7)
    {
        p.set("mode", "read-fault");
        Op f;
        f.name = "fault";
        static const char* outs[] = {"ERR:EIO", "SHORT", "EINTR"};
        bool rd = fl.chance(2, 3);
        f.s = {rd ? "read" : "open_r", rd ? outs[fl.below(3)] : kOpenRErr[fl.below(4)]};
        f.a = {(long)fl.below(3), 1 + (long)fl.below(5000)};
        p.ops.push_back(f);
        if(fl.chance(1, 2))
        {
            Op m;
            m.name = "inc.split";
            m.s = {s};
            m.a = {(long long)fl.below(9), (long long)fl.below(9)};
            p.ops.push_back(m);
        }
    }
    else if(family >= 10 && family <= 12)
    {
        // token-level edits of the stored text: reference retargeting, lost attribute, extreme number,
        // duplicated / lost / swapped line
        p.set("mode", "token-edit");
        int n = (int)fl.range(1, 2);
        for(int i = 0; i < n; i++)
        {
            switch(fl.below(15))
            {
            case 14: mut("mut.longname", {(long long)fl.below(100000), (long long)fl.below(2)}); break;
            case 12:
            case 13: mut("mut.xml", {(long long)fl.below(100000), (long long)fl.below(10)}); break;
            case 8:
            case 9: mut("mut.attrcopy", {(long long)fl.below(100000), (long long)fl.below(100000), (long long)fl.below(100000)}); break;
            case 10: if(fl.chance(1, 2)) mut("mut.casetoggle", {(long long)fl.below(100000)}); else mut("mut.textdel", {(long long)fl.below(100000)}); break;
            case 11: mut("mut.textset", {(long long)fl.below(100000), (long long)fl.below(64)}); break;
            case 0:
            case 1:
            case 2: mut("mut.retarget", {(long long)fl.below(100000), (long long)fl.below(100000)}); break;
            case 3: mut("mut.attrdel", {(long long)fl.below(100000)}); break;
            case 4: mut("mut.extreme", {(long long)fl.below(100000), (long long)fl.below(64)}); break;
            case 5: mut("mut.linedup", {(long long)fl.below(100000), 0}); break;
            case 6: mut("mut.linedel", {(long long)fl.below(100000), 0}); break;
            default: mut("mut.lineswap", {(long long)fl.below(100000), (long long)fl.below(100000)}); break;
            }
        }
    }
    else if(family >= 14)
    {
        // structure-aware edits on whole elements: delete / duplicate / move / rename tag / wrap / graft
        p.set("mode", "element-edit");
        int n = (int)fl.range(1, 2);
        for(int i = 0; i < n; i++)
        {
            long kind = (long)fl.below(6);
            if(kind == 5 && fl.chance(1, 2)) kind = 7; // graft keeps its own number; 6 is `nest`
            if(fl.chance(1, 40))
            {
                // nesting depth: cheap depths (the cost grows steeply with depth: 80 levels of groups are 0.1 s,
                // 320 levels more than a minute - those are not offered), or so deep that unbounded recursion shows at once
                static const long long depths[] = {2, 5, 12, 25, 40, 30000, 60000};
                mut("mut.elem", {6, (long long)fl.below(100000), depths[fl.below(7)], 0});
                continue;
            }
            mut("mut.elem", {kind, (long long)fl.below(100000), (long long)fl.below(100000), (long long)fl.below(2)}, kind >= 5 ? std::vector<std::string>{g_corpus.names[fl.below(g_corpus.names.size())]} : std::vector<std::string>{});
        }
        if(fl.chance(1, 4)) mut("mut.retarget", {(long long)fl.below(100000), (long long)fl.below(100000)});
    }
    else if(family == 13)
    {
        // the output location is unusable in a way that also makes stat() fail
        p.set("mode", "unusable-output-dir");
        static const char* errs[] = {"EACCES", "ENAMETOOLONG", "ELOOP", "EIO", "ENOTDIR"};
        Op c;
        c.name = "cond";
        c.s = {errs[fl.below(5)], fl.chance(1, 2) ? "/sim/out" : "/sim/out2"};
        p.ops.push_back(c);
        Op r;
        r.name = "run";
        r.s = {s};
        r.a = {(long)(fl.chance(1, 2) ? fl.below(3) : 3), 0};
        p.ops.push_back(r);
        return p;
    }
    else
    {
        p.set("mode", "argv");
        argv_v = (long)fl.range(1, 22);
        if(argv_v == 11 && fl.chance(1, 2))
        {
            Op d;
            d.name = "dirseek";
            d.a = {0};
            p.ops.push_back(d);
        }
    }
    Op r;
    r.name = "run";
    r.s = {s};
    r.a = {(long)wl.below(4), argv_v};
    p.ops.push_back(r);
    return p;
}

Plan gen_plan(u64 seed, const std::string& prop, const std::string& tier)
{
    load_corpus();
    install_handlers();
    if(prop != "C09") return gen_c20(seed, tier);
    Plan p = gen_c09(seed, tier);
    // one C09 plan in twelve runs sbeppc in a fresh process per invocation, like every C20 plan (all of
    // them would cost six times the CPU)
    if(sim::Rng(seed).fork("isolate").chance(1, 12)) p.seti("isolate", 1);
    return p;
}

std::vector<Op> shrink_op(const Plan&, const Op& o)
{
    std::vector<Op> out;
    for(std::size_t i = 0; i < o.a.size(); i++)
    {
        if(o.name == "run" || o.name == "prefill" || o.name == "fault")
        {
            if(o.name == "fault" && i == 0) continue; // the ordinal identifies the call; keep it
            if(o.a[i] != 0)
            {
                Op c = o;
                c.a[i] = 0;
                out.push_back(c);
            }
            continue;
        }
        if(o.a[i] != 0)
        {
            Op c = o;
            c.a[i] = o.a[i] / 2;
            out.push_back(c);
            c.a[i] = o.a[i] - 1;
            out.push_back(c);
        }
    }
    if(o.has_bytes && !o.bytes.empty())
    {
        Op c = o;
        c.bytes.resize(o.bytes.size() / 2);
        out.push_back(c);
    }
    return out;
}
} // namespace

int main(int argc, char** argv)
{
    init_real();
#if !defined(__SANITIZE_ADDRESS__)
    {
        // a run that asks for gigabytes must end as std::bad_alloc quickly and identically on every machine
        struct rlimit rl;
        rl.rlim_cur = rl.rlim_max = 3ULL << 30;
        setrlimit(RLIMIT_AS, &rl);
    }
#endif
    if(argc >= 2 && std::string(argv[1]) == "info")
    {
        // number of enumerated single-fault points per tier, for the orchestrator
        load_corpus();
        std::string tier = argc >= 3 ? argv[2] : "quick";
        const auto& en = enumeration(tier);
        printf("ENUM %zu\n", en.size());
        {
            size_t crash = 0;
            for(auto& e : en) crash += e.kind == K_KILLPOINT;
            printf("CRASHPOINTS %zu\n", crash);
        }
        std::map<std::string, long> per;
        for(auto& e : en) per[e.schema]++;
        for(auto& kv : per)
        {
            const Ref& r = reference(kv.first, 0);
            printf("SCHEMA %s points=%ld trace_len=%zu files=%zu\n", kv.first.c_str(), kv.second, r.trace.size(), r.files.size());
        }
        return 0;
    }
    sim::Engine e;
    e.gen = gen_plan;
    e.exec = exec_plan;
    e.shrink_op = shrink_op;
    return sim::worker_main(argc, argv, e);
}
