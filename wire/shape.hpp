// Shape tables: what the independent layout model (gen/layout.py) says about a
// schema. Plain data; the generated *_shape.inc files fill these in.
#pragma once
#include <cstdint>
#include <string>
#include <vector>

namespace wire
{
using u8 = unsigned char;
using u64 = std::uint64_t;

enum Kind
{
    K_SCALAR,
    K_ARRAY,
    K_ENUM,
    K_SET,
    K_COMPOSITE
};

struct HField
{
    int off = -1;
    int width = 0;
};

struct HeaderShape
{
    const char* name;
    unsigned size;
    HField block_length, template_id, schema_id, version, num_in_group, num_groups, num_var_data;
};

struct MemberShape
{
    const char* name;
    int kind;
    int prim; // index into the primitive table, -1 for composites
    unsigned offset, size, count;
    int comp; // composite shape index or -1
    int tag;
    bool optional;
    int aux; // enum: index of its value table; set: index of its choice table; else -1
};

struct ValueTag
{
    u64 value; // enum value, or bit index of a set choice
    int tag;
};

struct CompShape
{
    const char* name;
    unsigned size;
    std::vector<MemberShape> members;
};

struct GroupShape
{
    const char* name;
    int level;
    int dim;
    int tag;
    bool flat;
};

struct DataShape
{
    const char* name;
    int len_width;
    int tag;
};

struct LevelShape
{
    const char* name;
    bool is_message;
    unsigned template_id;
    unsigned block_length; // compiled
    unsigned computed;     // extent of the compiled fields
    std::vector<MemberShape> fields;
    std::vector<GroupShape> groups;
    std::vector<DataShape> data;
    int tag;
};

struct SchemaShape
{
    const char* name;
    bool big;
    unsigned schema_id, version;
    HeaderShape msg_header;
    std::vector<HeaderShape> dims;
    std::vector<CompShape> comps;
    std::vector<LevelShape> levels;
    std::vector<int> messages;
    std::vector<const char*> tags;
    std::vector<std::vector<ValueTag>> valuesets;
};

inline const unsigned kPrimSize[] = {1, 1, 1, 2, 2, 4, 4, 8, 8, 4, 8};
} // namespace wire
