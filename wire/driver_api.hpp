// Non-template interface between the checker (model side) and the generated
// drivers (real sbepp side). A request names a target by schema position; the
// driver reaches it through real accessors and reports what it saw.
#pragma once
#include "shape.hpp"

#include <cstddef>
#include <vector>

namespace wire
{
struct PathStep
{
    int group;  // group index inside the current level
    u64 entry;  // entry index inside that group
    // how the entry is obtained from a flat group: 0 g[i]; 1 *(begin()+i); 2 *(end()-(size-i));
    // 3 back() (i must be the last); 4 front() (i must be 0); 5 i increments from begin(); 6 end()[-(size-i)]
    int route = 0;
};

enum Target
{
    T_FIELD,        // member = field index; cpath selects a member inside a composite
    T_GROUP,        // member = group index
    T_DATA,         // member = data index
    T_LEVEL,        // the level view itself (message or entry)
    T_MESSAGE,      // message-only operations
    T_GROUP_AT_P    // a top-level group view constructed directly at p (size_bytes_checked on groups)
};

enum Sub
{
    // fields (scalar / enum / set / composite member)
    GET,
    SET,
    GET_BY_TAG,
    SET_BY_TAG,
    SET_CHOICES, // sets: every choice through its named accessor and by tag, read and toggled
    // arrays
    A_DATA,
    A_INDEX,
    A_FRONT,
    A_BACK,
    A_SIZE,
    A_STRLEN,
    A_STRLEN_R,
    A_FILL,
    A_ASSIGN_STRING,
    A_ITER,
    A_RAW_ITER,  // every element through the view returned by raw()
    A_RAW_WRITE, // re-write the last element through raw()
    A_REVERSE,   // rbegin()..rend()
    A_ASSIGN_N,  // assign(count, value) with count = N
    A_ASSIGN_RANGE,
    // groups
    G_ADDR,
    G_SIZE,
    G_EMPTY,
    G_HEADER,
    G_SIZE_BYTES,
    G_ITER,
    G_INDEX,
    G_FRONT,
    G_BACK,
    G_RESIZE,
    G_CLEAR,
    G_FILL_HEADER,
    G_ITER_CURSOR,
    G_HEADER_FIELDS, // read and re-write blockLength / numInGroup through the dimension composite
    G_ITER_INDEXED,
    G_RESIZE_THEN_LAST, // resize(count+1), then access the new last entry's first byte position (view only) // flat groups: *(begin()+i), begin()[i], (end()-1-i) for every i
    // data
    D_ADDR,
    D_SIZE,
    D_READ_ALL,
    D_INDEX,
    D_FRONT,
    D_BACK,
    D_SIZE_BYTES,
    D_RESIZE,
    D_PUSH_BACK,
    D_ASSIGN_STRING,
    D_ASSIGN_STRING_LONG, // 40 characters, whatever fits
    D_CLEAR,
    // level
    L_SIZE_BYTES,
    L_VISIT_CHILDREN, // recorder, shallow
    // message
    M_HEADER,
    M_FILL_HEADER,
    M_HEADER_FIELDS, // read and re-write the four standard members through the header composite
    M_SBC,
    M_SIZE_BYTES_CURSOR, // full cursor traversal, then size_bytes(m, c)
    M_CURSOR_WALK,       // scripted walk (C04)
    M_VISIT_FULL,        // full-depth recording visit with stop_at (C19)
    M_ENCODE,            // real encoder driven by a value tree (script); arg: 0 random access, 1 cursor-based; arg2: 0 = all steps, k+1 = stop after k steps (torn encode)
    D_HISTORY,           // data member: a scripted history of dynamic-array operations (rq.dops); arg: how the view is obtained (0 named, 1 by tag, 2 cursor init, 3 by tag + cursor init)
    G_INFO,              // group: address + numInGroup as the view reports it
    D_INFO,              // data: address + length and payload hash as the view reports them
    A_ASSIGN_STRING_MODE,  // arrays: assign_string(const char*, eos_null) - arg: length, arg2: 0 all, 1 single, 2 none
    A_ASSIGN_STRING_RANGE, // arrays: assign_string(range, eos_null) - same arguments
    A_ASSIGN_ITER,         // arrays: assign(first, last) with arg elements
    A_ASSIGN_IL,           // arrays: assign({v, v+1}) (arrays of at least two elements)
    A_PARTIAL_FILL,        // arrays: assign(count, value) with count = arg <= N
    G_ITER_FORMS,          // flat groups, per entry i: *(1 + it), *(it - 1), *(it++), it-- / --it, and the relational operators / distance between it_i and it_(n-1-i) (bits = number of inconsistent answers)
    SUB_COUNT
};

enum Wrapper
{
    W_PLAIN,
    W_INIT,
    W_DONT_MOVE,
    W_INIT_DONT_MOVE,
    W_SKIP,
    W_OMIT // the member is not called at all (out-of-order use of the next one)
};

// One decision of a cursor-walk script, consumed in call order.
struct Decision
{
    int wrapper = W_PLAIN;
    long long displace = 0; // applied to the cursor before the call (misuse injection)
    int split = -1;         // for groups: -1 = cursor_range, j >= 0 = cursor_subrange(0,j) + cursor_subrange(j)
    bool write = false;     // use the setter form (scalar/enum/set fields only)
    u64 value = 0;          // what the setter writes (the model supplies the value the frame already holds)
};

// One dynamic-array operation of a D_HISTORY script (the same table as dynarr's, reduced to what is
// meaningful on a generated data member): kind, position, count, value.
struct DataOp
{
    int kind = 0;
    u64 a = 0, b = 0;
    u8 v = 0;
};
enum DataOpKind
{
    DO_PUSH_BACK,
    DO_POP_BACK,
    DO_INSERT1,      // insert(begin()+a, v)
    DO_INSERTN,      // insert(begin()+a, b, v)
    DO_INSERT_RANGE, // insert(begin()+a, first, last) with b elements v, v+1, ...
    DO_INSERT_IL,    // insert(begin()+a, {v, v+1, v+2})
    DO_ERASE1,       // erase(begin()+a)
    DO_ERASE2,       // erase(begin()+a, begin()+a+b)
    DO_RESIZE,       // resize(a)
    DO_RESIZE_V,     // resize(a, v)
    DO_RESIZE_DI,    // resize(a, default_init)
    DO_ASSIGN_N,     // assign(a, v)
    DO_ASSIGN_RANGE, // assign(first, last) with a elements v, v+1, ...
    DO_ASSIGN_IL,    // assign({v, v+1})
    DO_ASSIGN_STRING,// assign_string of a characters 'a' + (v % 26)
    DO_ASSIGN_RANGE2,// assign_range(container) with a elements
    DO_CLEAR,
    DO_KINDS
};

struct CursorStep
{
    int level;       // level index
    u64 inst_start;  // offset of the level instance the call was made on (message: 0)
    int mkind;       // T_FIELD / T_GROUP / T_DATA / T_LEVEL(entry deref)
    int member;
    int wrapper;
    bool has_bits = false, has_addr = false;
    u64 bits = 0;
    long long addr_off = 0; // returned view's address - p
    long long cursor_off = 0; // c.pointer() - p after the call
    long long cursor_before = 0;
    // groups and data members obtained through a non-skip wrapper: what the returned view itself reports
    // (numInGroup / length as that view decodes it, and for data a hash of the payload it exposes)
    bool has_view = false;
    u64 vsize = 0, vhash = 0;
};

enum EventKind
{
    EV_MESSAGE,
    EV_GROUP,
    EV_ENTRY,
    EV_FIELD,
    EV_DATA,
    EV_COMPOSITE,
    EV_TYPE,
    EV_ENUM,
    EV_SET,
    EV_ENUM_VALUE,
    EV_SET_CHOICE
};

struct Event
{
    int kind;
    int tag; // tag id from the shape tables; -2 unknown_enum_value_tag
    bool has_bits = false, has_addr = false;
    u64 bits = 0;
    long long addr_off = 0;
    u64 size = 0;
    long long cursor_off = -1; // where the cursor was when the callback ran (parents only)
};

struct Req
{
    int msg = 0;
    u8* p = nullptr;
    std::size_t n = 0;        // the view is bound to [p, p+n)
    long long size_arg = -1;  // size argument of size_bytes_checked; -1 = n
    int target = T_LEVEL;
    int sub = GET;
    std::vector<PathStep> path;
    int member = 0;
    std::vector<int> cpath;
    u64 arg = 0;
    u64 arg2 = 0;
    bool via_const_view = false; // read-only ops: go through View<const Byte> obtained from the mutable view by conversion
    bool entry_to_const = false; // every entry on the path is converted entry<Byte> -> entry<const Byte> before use (read-only ops)
    int ctor = 0; // how the message view comes to be: 0 View{p,n}; 1 sbepp::make_view<View>(p,n); 2 sbepp::make_const_view<View>(p,n) (read-only routes)
    const std::vector<Decision>* script = nullptr;
    long long stop_at = -1; // M_VISIT_FULL: callback number that returns true (1-based), -1 never
    const void* tree = nullptr; // M_ENCODE: const Node*
    const std::vector<DataOp>* dops = nullptr; // D_HISTORY
};

struct Res
{
    bool has_bits = false, has_addr = false;
    u64 bits = 0;
    long long addr_off = 0;
    u64 size = 0;
    bool valid = false; // M_SBC
    bool unsupported = false; // the op does not exist for this target (e.g. operator[] on a nested group)
    long long cursor_off = -1;
    bool has_view = false; // G_ADDR / D_ADDR: numInGroup / length (+ payload hash) as the view reports them
    u64 vsize = 0, vhash = 0;
    std::vector<CursorStep> csteps;
    std::vector<Event> events;
    // set when a by-tag form was asked for but does not exist although the named accessor with the same
    // arguments does ("get_by_tag/set_by_tag behave exactly like the named accessors")
    const char* api_gap = nullptr;
    void reset()
    {
        api_gap = nullptr;
        has_bits = has_addr = valid = unsupported = has_view = false;
        bits = size = vsize = vhash = 0;
        addr_off = 0;
        cursor_off = -1;
        csteps.clear();
        events.clear();
    }
};

inline const char*& api_gap_slot()
{
    static const char* s = nullptr;
    return s;
}

struct Driver
{
    const SchemaShape* shape;
    void (*run)(const Req&, Res&);
    bool checked; // built with SBEPP_ENABLE_ASSERTS_WITH_HANDLER
    bool producer_only = false; // a later version of a corpus schema: only M_ENCODE is bound (the producing peer of C03)
};

std::vector<Driver>& drivers();
// the drivers checks draw their schemas from (everything except producer-only ones), in registry order
const std::vector<Driver>& consumer_drivers();
} // namespace wire
