// C10: checked builds never touch memory outside the view silently; and
// in-bounds, precondition-satisfying calls never invoke the handler.
// Every catalogue op reachable for a frame's shape is executed on View{p,n}
// for every truncation n (guard page right after byte n-1, canaries before p).
#pragma once
#include "c04.hpp"

namespace wire
{
struct OpSpec
{
    Req rq;          // template (p/n filled per run)
    u64 extent = 0;  // bytes [0, extent) are what the op may legitimately need (conservative, DESIGN appendix D)
    std::string label;
    int bg = -1;     // what the slot holds before the op: -1 the frame's own bytes, 0 zeros, 1 all ones (producers)
};

struct OpEnumerator
{
    const SchemaShape& sh;
    const Frame& f;
    std::vector<OpSpec>& out;
    unsigned max_entries = 3;

    void add(const Req& base, int target, int sub, int member, u64 extent, const std::string& label, u64 arg = 0, std::vector<int> cpath = {})
    {
        OpSpec s;
        s.rq = base;
        s.rq.target = target;
        s.rq.sub = sub;
        s.rq.member = member;
        s.rq.arg = arg;
        s.rq.cpath = cpath;
        s.extent = extent;
        s.label = label;
        out.push_back(s);
    }

    void add2(const Req& base, int target, int sub, int member, u64 extent, const std::string& label, u64 arg, u64 arg2, std::vector<int> cpath)
    {
        add(base, target, sub, member, extent, label, arg, cpath);
        out.back().rq.arg2 = arg2;
    }

    void leaf_ops(const Req& base, const MemberShape& m, int field, std::vector<int> cpath, u64 abs, u64 ext, const std::string& lbl, const std::vector<u8>& bytes)
    {
        // abs = absolute offset of the member; ext = conservative extent of any access to it
        switch(m.kind)
        {
        case K_SCALAR:
        case K_ENUM:
        case K_SET:
        {
            const u64 cur = abs + m.size <= bytes.size() ? rd(&bytes[abs], (int)m.size, sh.big) : 0;
            add(base, T_FIELD, GET, field, ext, lbl + ".get", 0, cpath);
            add(base, T_FIELD, SET, field, ext, lbl + ".set", cur, cpath);
            add(base, T_FIELD, GET_BY_TAG, field, ext, lbl + ".get_by_tag", 0, cpath);
            add(base, T_FIELD, SET_BY_TAG, field, ext, lbl + ".set_by_tag", cur, cpath);
            break;
        }
        case K_ARRAY:
        {
            add(base, T_FIELD, A_DATA, field, ext, lbl + ".data", 0, cpath);
            add(base, T_FIELD, A_SIZE, field, ext, lbl + ".size", 0, cpath);
            add(base, T_FIELD, GET_BY_TAG, field, ext, lbl + ".get_by_tag", 0, cpath);
            add(base, T_FIELD, A_ITER, field, ext, lbl + ".iterate", 0, cpath);
            add(base, T_FIELD, A_RAW_ITER, field, ext, lbl + ".raw() iterate", 0, cpath);
            add(base, T_FIELD, A_RAW_WRITE, field, ext, lbl + ".raw() write last", 0, cpath);
            add(base, T_FIELD, A_REVERSE, field, ext, lbl + ".rbegin..rend", 0, cpath);
            add(base, T_FIELD, A_ASSIGN_N, field, ext, lbl + ".assign(N, v)", 0x43, cpath);
            add(base, T_FIELD, A_ASSIGN_RANGE, field, ext, lbl + ".assign_range", 0x44, cpath);
            add(base, T_FIELD, A_STRLEN, field, ext, lbl + ".strlen", 0, cpath);
            add(base, T_FIELD, A_STRLEN_R, field, ext, lbl + ".strlen_r", 0, cpath);
            add(base, T_FIELD, A_FILL, field, ext, lbl + ".fill", 0x41, cpath);
            add(base, T_FIELD, A_ASSIGN_STRING, field, ext, lbl + ".assign_string", std::min<u64>(m.count, 3), cpath);
            // the eos modes and the other assign overloads (documented preconditions hold: lengths <= N)
            for(u64 mode = 0; mode < 3; mode++)
            {
                static const char* mn[] = {"eos_null::all", "eos_null::single", "eos_null::none"};
                add2(base, T_FIELD, A_ASSIGN_STRING_MODE, field, ext, lbl + ".assign_string(cstr, " + mn[mode] + ") shorter", m.count ? m.count - 1 : 0, mode, cpath);
                add2(base, T_FIELD, A_ASSIGN_STRING_MODE, field, ext, lbl + ".assign_string(cstr, " + mn[mode] + ") full", m.count, mode, cpath);
                add2(base, T_FIELD, A_ASSIGN_STRING_RANGE, field, ext, lbl + ".assign_string(range, " + mn[mode] + ")", m.count / 2, mode, cpath);
            }
            add(base, T_FIELD, A_ASSIGN_ITER, field, ext, lbl + ".assign(first, last) full", m.count, cpath);
            add(base, T_FIELD, A_ASSIGN_ITER, field, ext, lbl + ".assign(first, last) empty", 0, cpath);
            add(base, T_FIELD, A_ASSIGN_IL, field, ext, lbl + ".assign({a, b})", 0, cpath);
            add(base, T_FIELD, A_PARTIAL_FILL, field, ext, lbl + ".assign(N-1, v)", m.count ? m.count - 1 : 0, cpath);
            if(m.count)
            {
                add(base, T_FIELD, A_INDEX, field, ext, lbl + "[0]", 0, cpath);
                add(base, T_FIELD, A_INDEX, field, ext, lbl + "[last]", m.count - 1, cpath);
                add(base, T_FIELD, A_FRONT, field, ext, lbl + ".front", 0, cpath);
                add(base, T_FIELD, A_BACK, field, ext, lbl + ".back", 0, cpath);
            }
            break;
        }
        case K_COMPOSITE:
        {
            add(base, T_FIELD, GET, field, ext, lbl + ".view", 0, cpath);
            const CompShape& c = sh.comps[(std::size_t)m.comp];
            for(std::size_t i = 0; i < c.members.size(); i++)
            {
                auto cp = cpath;
                cp.push_back((int)i);
                leaf_ops(base, c.members[i], field, cp, abs + c.members[i].offset, ext, lbl + "." + c.members[i].name, bytes);
            }
            break;
        }
        }
    }

    void level(const Node& n, const std::vector<PathStep>& path, const std::string& lbl)
    {
        const LevelShape& lv = sh.levels[(std::size_t)n.level];
        Req base;
        base.msg = f.msg;
        base.path = path;
        const bool root = path.empty();
        const u64 block_start = root ? sh.msg_header.size : n.start;
        const u64 block_end = block_start + n.block.size();
        add(base, T_LEVEL, L_SIZE_BYTES, 0, n.end, lbl + ".size_bytes");
        add(base, T_LEVEL, L_VISIT_CHILDREN, 0, n.end, lbl + ".visit_children");
        for(std::size_t i = 0; i < lv.fields.size(); i++)
        {
            const MemberShape& m = lv.fields[i];
            const u64 abs = block_start + m.offset;
            // root fields: their own end; entry fields: the entry block end (navigation may check the whole block)
            u64 ext = root ? abs + m.size : std::max(block_end, abs + m.size);
            leaf_ops(base, m, (int)i, {}, abs, ext, lbl + "." + m.name, f.bytes);
        }
        for(std::size_t gi = 0; gi < lv.groups.size(); gi++)
        {
            const GroupInst& g = n.groups[gi];
            const GroupShape& gs = lv.groups[gi];
            const u64 hend = g.start + sh.dims[(std::size_t)gs.dim].size;
            const std::string gl = lbl + "." + gs.name;
            const u64 cnt = g.entries.size();
            add(base, T_GROUP, G_ADDR, (int)gi, hend, gl + ".view");
            add(base, T_GROUP, GET_BY_TAG, (int)gi, hend, gl + ".get_by_tag");
            add(base, T_GROUP, G_SIZE, (int)gi, hend, gl + ".size");
            add(base, T_GROUP, G_EMPTY, (int)gi, hend, gl + ".empty");
            add(base, T_GROUP, G_HEADER, (int)gi, hend, gl + ".get_header");
            add(base, T_GROUP, G_HEADER_FIELDS, (int)gi, hend, gl + ".get_header.{blockLength,numInGroup} get+set");
            add(base, T_GROUP, G_RESIZE, (int)gi, hend, gl + ".resize(same)", cnt);
            add(base, T_GROUP, G_CLEAR, (int)gi, hend, gl + ".clear");
            add(base, T_GROUP, G_FILL_HEADER, (int)gi, hend, gl + ".fill_group_header", cnt);
            add(base, T_GROUP, G_RESIZE_THEN_LAST, (int)gi, ~0ULL, gl + ".resize(count+1) then the new last entry");
            add(base, T_GROUP, G_SIZE_BYTES, (int)gi, g.end, gl + ".size_bytes");
            add(base, T_GROUP, G_ITER, (int)gi, g.end, gl + ".iterate");
            if(gs.flat) add(base, T_GROUP, G_ITER_INDEXED, (int)gi, g.end, gl + ".iterator arithmetic");
            if(gs.flat) add(base, T_GROUP, G_ITER_FORMS, (int)gi, g.end, gl + ".iterator forms (n + it, it - n, it++, it--, --it, relations)");
            if(cnt)
            {
                add(base, T_GROUP, G_FRONT, (int)gi, g.end, gl + ".front");
                if(gs.flat)
                {
                    add(base, T_GROUP, G_INDEX, (int)gi, g.end, gl + "[0]", 0);
                    add(base, T_GROUP, G_INDEX, (int)gi, g.end, gl + "[last]", cnt - 1);
                    add(base, T_GROUP, G_BACK, (int)gi, g.end, gl + ".back");
                }
            }
            for(std::size_t ei = 0; ei < g.entries.size() && ei < max_entries; ei++)
            {
                auto p2 = path;
                p2.push_back({(int)gi, (u64)ei});
                level(g.entries[ei], p2, gl + "[" + std::to_string(ei) + "]");
            }
            if(gs.flat && cnt)
            {
                // the same entries obtained through the other routes a flat group offers: every op of the
                // first / last entry again through begin()+i, end()-k, back(), front(), ++ steps, end()[-k]
                static const char* rn[] = {"", "*(begin()+i)", "*(end()-k)", "back()", "front()", "++steps", "end()[-k]"};
                for(int route : {1, 2, 3, 4, 5, 6})
                {
                    const u64 ei = (route == 4 || route == 1 || route == 5) ? 0 : cnt - 1;
                    if(route == 1 && cnt > 1)
                    {
                        auto p3 = path;
                        p3.push_back({(int)gi, cnt - 1, 1});
                        if(cnt - 1 < max_entries) level(g.entries[(std::size_t)cnt - 1], p3, gl + "." + rn[1] + "#last");
                    }
                    if(ei >= g.entries.size()) continue;
                    auto p2 = path;
                    p2.push_back({(int)gi, ei, route});
                    level(g.entries[(std::size_t)ei], p2, gl + "." + rn[route]);
                }
            }
        }
        for(std::size_t di = 0; di < lv.data.size(); di++)
        {
            const DataShape& ds = lv.data[di];
            const u64 ps = n.data_start[di];
            const u64 pend = ps + (u64)ds.len_width;
            const u64 len = n.data[di].size();
            const u64 dend = pend + len;
            const std::string dl = lbl + "." + ds.name;
            add(base, T_DATA, D_ADDR, (int)di, pend, dl + ".view");
            add(base, T_DATA, GET_BY_TAG, (int)di, pend, dl + ".get_by_tag");
            add(base, T_DATA, D_SIZE, (int)di, pend, dl + ".size");
            add(base, T_DATA, D_SIZE_BYTES, (int)di, dend, dl + ".size_bytes");
            add(base, T_DATA, D_READ_ALL, (int)di, dend, dl + ".read_all");
            add(base, T_DATA, D_RESIZE, (int)di, dend, dl + ".resize(same)", len);
            add(base, T_DATA, D_CLEAR, (int)di, dend, dl + ".clear");
            add(base, T_DATA, D_ASSIGN_STRING, (int)di, dend, dl + ".assign_string", std::min<u64>(len, 5));
            add(base, T_DATA, D_ASSIGN_STRING_LONG, (int)di, pend + 40, dl + ".assign_string(40 chars)");
            if(len)
            {
                add(base, T_DATA, D_INDEX, (int)di, dend, dl + "[0]", 0);
                add(base, T_DATA, D_INDEX, (int)di, dend, dl + "[last]", len - 1);
                add(base, T_DATA, D_FRONT, (int)di, dend, dl + ".front");
                add(base, T_DATA, D_BACK, (int)di, dend, dl + ".back");
            }
            if(len + 1 <= width_mask(ds.len_width) - 1) add(base, T_DATA, D_PUSH_BACK, (int)di, dend + 1, dl + ".push_back", 0x42);
        }
    }

    void all()
    {
        Req base;
        base.msg = f.msg;
        const u64 N = f.bytes.size();
        add(base, T_MESSAGE, M_HEADER, 0, sh.msg_header.size, "get_header");
        add(base, T_MESSAGE, M_FILL_HEADER, 0, sh.msg_header.size, "fill_message_header");
        add(base, T_MESSAGE, M_HEADER_FIELDS, 0, sh.msg_header.size, "get_header(m).{blockLength,templateId,schemaId,version} get+set");
        add(base, T_MESSAGE, M_SIZE_BYTES_CURSOR, 0, N, "cursor_traversal+size_bytes(m,c)");
        add(base, T_MESSAGE, M_VISIT_FULL, 0, N, "visit(full depth)");
        level(f.root, {}, sh.levels[(std::size_t)f.root.level].name);
        // every op again through View<const Byte> converted from the mutable view (mutating ops report
        // "unsupported" there and are skipped): the conversion must carry the bounds along
        const std::size_t n0 = out.size();
        for(std::size_t i = 0; i < n0; i++)
        {
            if(out[i].rq.target == T_MESSAGE || out[i].rq.target == T_GROUP_AT_P) continue;
            if(!out[i].rq.path.empty() && out[i].rq.path.size() > 1) continue; // root and first-level entries
            OpSpec c = out[i];
            c.rq.via_const_view = true;
            c.label += " [const view]";
            out.push_back(c);
        }
        // and the ops below an entry again with every entry on the path converted entry<Byte> ->
        // entry<const Byte> (appended last: catalogue indices of earlier ops, which committed plans name, stay)
        for(std::size_t i = 0; i < n0; i++)
        {
            if(out[i].rq.target == T_MESSAGE || out[i].rq.target == T_GROUP_AT_P) continue;
            if(out[i].rq.path.empty() || out[i].rq.path.size() > 2) continue;
            OpSpec c = out[i];
            c.rq.entry_to_const = true;
            c.label += " [entry converted to const]";
            out.push_back(c);
        }
    }
};

struct C10
{
    const Driver* drv;
    Result* res;
    sim::Hasher* fp;
    std::set<std::string> known;
    std::string where;
    u8 canary[sim::kCanary];
    bool converse = true; // off when structural fields were corrupted: extents are then unknown, safety only

    bool report(const std::string& cls, const OpSpec& op, const std::string& detail, u64 n, std::size_t opi)
    {
        const std::string sig = "C10:" + cls + ":" + target_name(op.rq) ;
        if(known.count(sig))
        {
            if(std::find(res->known.begin(), res->known.end(), sig) == res->known.end()) res->known.push_back(sig);
            sim::stats().count("known." + sig);
            return true;
        }
        if(!res->violation)
        {
            res->violation = true;
            res->signature = sig;
            res->detail = "`" + op.label + "`: " + detail + " [" + where + ", n=" + std::to_string(n) + ", extent " + std::to_string(op.extent) + "] op=" + std::to_string(opi) + " k=" + std::to_string(n);
        }
        return false;
    }

    static std::string target_name(const Req& rq)
    {
        static const char* t[] = {"field", "group", "data", "level", "message", "group_at_p"};
        return std::string(t[rq.target]) + "/" + std::to_string(rq.sub);
    }

    // one op on View{p,n}; fresh copy of the medium every time
    bool run(const OpSpec& op, const std::vector<u8>& bytes, u64 n, std::size_t opi)
    {
        u8* p = sim::arena_place((std::size_t)n);
        if(n) std::memcpy(p, bytes.data(), (std::size_t)n);
        if(n && op.bg >= 0) std::memset(p, op.bg ? 0xFF : 0, (std::size_t)n);
        std::memcpy(p - sim::kCanary, canary, sim::kCanary);
        Req rq = op.rq;
        rq.p = p;
        rq.n = (std::size_t)n;
        // the view is built by the constructor, by sbepp::make_view or by sbepp::make_const_view in turn
        rq.ctor = (int)((opi + n) % 3);
        Res rs;
        Outcome o = call_driver(*drv, rq, rs);
        sim::stats().count("c10.ops");
        sim::stats().count(rq.ctor == 0 ? "c10.view_from_constructor" : rq.ctor == 1 ? "c10.view_from_make_view" : "c10.view_from_make_const_view_or_constructor");
        fp->add((u64)o.kind);
        const bool in_bounds = converse && op.extent <= n;
        sim::stats().tuple(std::string(drv->shape->name) + "|" + target_name(op.rq) + "|" + sim::out_name(o.kind) + "|" + (in_bounds ? "fits" : "cut"));
        if(rs.unsupported) return true;
        // Accesses *below* p are outside the statement (it speaks of bytes at or beyond p+n): they are
        // counted, not flagged. They do occur: with a hostile 64-bit blockLength / numInGroup / length the
        // pointer arithmetic of derived views wraps around and lands before the buffer, where the
        // end-pointer-only bounds check cannot see it.
        if(std::memcmp(p - sim::kCanary, canary, sim::kCanary) != 0) sim::stats().count("probe.write_below_p(outside the statement)");
        if(o.kind == Out::TIMEOUT) return report("timeout", op, "did not return within the CPU budget", n, opi);
        if(o.kind == Out::OOB)
        {
            if(o.off < 0)
            {
                sim::stats().count("probe.access_below_p(outside the statement)");
                return true;
            }
            // was it a check placed after the access? re-run with accessible slack behind the view
            const std::size_t slack = 1 << 16;
            u8* q = sim::arena_place((std::size_t)n, slack);
            if(n) std::memcpy(q, bytes.data(), (std::size_t)n);
            if(n && op.bg >= 0) std::memset(q, op.bg ? 0xFF : 0, (std::size_t)n);
            std::memset(q + n, 0x5A, slack);
            Req r2 = op.rq;
            r2.p = q;
            r2.n = (std::size_t)n;
            r2.ctor = rq.ctor;
            Res rs2;
            Outcome o2 = call_driver(*drv, r2, rs2);
            // a late check is one that fires inside the *same* accessor call that made the access: the
            // traversal must not have progressed past the call that faulted
            const bool producer = op.rq.sub == M_ENCODE; // progress of a producer = writes begun
            const std::size_t at_fault = rs.csteps.size() + rs.events.size() + (producer ? (std::size_t)rs.bits : 0), at_handler = rs2.csteps.size() + rs2.events.size() + (producer ? (std::size_t)rs2.bits : 0);
            if(o2.kind == Out::HANDLER && at_handler == at_fault)
            {
                sim::stats().count("probe.late_check(access-before-assert)");
                return true;
            }
            sim::stats().count("probe.silent_oob");
            return report("silent-oob", op, "accessed offset " + std::to_string(o.off) + " (>= n) and the assertion handler was not invoked (soft re-run: " + sim::out_name(o2.kind) + ")", n, opi);
        }
        if(o.kind == Out::HANDLER)
        {
            sim::stats().count(in_bounds ? "probe.handler_in_bounds" : "probe.handler_on_truncated");
            if(in_bounds) return report("spurious-handler", op, std::string("assertion `") + o.expr + "` in " + o.func + " although every byte the op needs lies inside the buffer", n, opi);
        }
        else
            sim::stats().count(in_bounds ? "c10.completed_in_bounds" : "c10.completed_truncated");
        return true;
    }
};

inline Result exec_c10(const Plan& plan)
{
    Result res;
    FrameSpec fs;
    if(!frame_spec(plan, fs))
    {
        res.signature = "HARNESS:bad-frame-spec";
        return res;
    }
    if(!fs.drv->checked)
    {
        res.signature = "HARNESS:C10-needs-checked-build";
        return res;
    }
    // generous: the budget is there to catch runaway code under test, not to race the sweep itself
    PlanBudget budget(plan.geti("budget_ms", 180000));
    sim::Hasher fp;
    const SchemaShape& sh = *fs.drv->shape;
    Frame f = make_frame(fs);
    C10 c{fs.drv, &res, &fp};
    for(std::size_t i = 0; i < sim::kCanary; i++) c.canary[i] = u8(0xC0 + i);
    c.known = known_set(plan);
    c.where = std::string("schema ") + sh.name + " msg " + std::to_string(fs.msg) + " tree " + std::to_string(fs.tree_seed);
    std::vector<OpSpec> ops;
    OpEnumerator en{sh, f, ops};
    en.all();
    // cursor traversals through every wrapper kind (legal scripts, sanitised by the cursor model)
    std::vector<std::vector<Decision>> scripts;
    {
        const u64 wseed = (u64)plan.geti("walks", 1);
        for(int v = 0; v < 7; v++)
        {
            sim::Rng r(wseed * 131 + (u64)v);
            std::vector<Decision> raw;
            for(int i = 0; i < 400; i++)
            {
                Decision d;
                switch(v)
                {
                case 0: d.wrapper = W_INIT; break;
                case 1: d.wrapper = W_SKIP; break;
                case 2: d.wrapper = i % 2 ? W_PLAIN : W_DONT_MOVE; break;
                case 3: d.wrapper = i % 2 ? W_INIT : W_INIT_DONT_MOVE; break;
                case 5: d.wrapper = W_PLAIN; break;
                case 6: d.wrapper = i % 3 == 0 ? W_DONT_MOVE : W_INIT; break;
                default: d.wrapper = (int)r.below(5); break;
                }
                d.split = v == 4 ? (int)r.below(4) - 1 : -1;
                d.write = (v == 4 && r.chance(1, 4)) || v >= 5; // 5, 6: every scalar through its cursor setter
                raw.push_back(d);
            }
            CursorModel cm{sh, f, raw, false};
            cm.run();
            scripts.push_back(cm.script);
        }
        static const char* names[] = {"cursor walk (init)", "cursor walk (skip)", "cursor walk (dont_move+plain)", "cursor walk (init_dont_move+init)", "cursor walk (seeded mix, subranges, setters)", "cursor walk (plain, cursor setters)", "cursor walk (dont_move/init, cursor setters)"};
        for(std::size_t v = 0; v < scripts.size(); v++)
        {
            OpSpec s;
            s.rq.msg = f.msg;
            s.rq.target = T_MESSAGE;
            s.rq.sub = M_CURSOR_WALK;
            s.rq.script = &scripts[v];
            s.rq.arg = 2; // no size_bytes(m,c) at the end
            s.extent = f.bytes.size();
            s.label = names[v];
            ops.push_back(s);
        }
    }
    // F9 (capacity) on the writer side: a real producer (random-access setters, or the cursor idiom) encodes
    // the frame's value tree into a slot of n bytes, for every n. It must end in the handler or complete
    // inside the slot; with n >= the frame size it must complete (appended last: catalogue indices stay).
    {
        static const char* en_names[] = {"producer (random-access setters) over the frame's own bytes", "producer (cursor idiom) over the frame's own bytes", "producer (random-access setters) over an all-ones slot", "producer (cursor idiom) over an all-ones slot", "producer (random-access setters) over a zeroed slot", "producer (cursor idiom) over a zeroed slot"};
        for(int v = 0; v < 6; v++)
        {
            OpSpec s;
            s.rq.msg = f.msg;
            s.rq.target = T_MESSAGE;
            s.rq.sub = M_ENCODE;
            s.rq.tree = &f.root;
            s.rq.arg = (u64)(v & 1);
            s.bg = v < 2 ? -1 : v < 4 ? 1 : 0;
            s.extent = f.bytes.size();
            s.label = en_names[v];
            ops.push_back(s);
        }
    }
    std::vector<u8> bytes = f.bytes;
    const u64 N = bytes.size();
    const std::vector<StructField> sf = struct_fields(sh, f);
    for(const Op& op : plan.ops)
    {
        if(res.violation) break;
        if(op.name == "sweep_ops")
        {
            // every truncation point x every catalogue op
            // frames with blocks extended to tens of kilobytes: every truncation point up to 3000, then a stride
            // plus the neighbourhood of every op's extent
            const u64 step = N > 3000 ? 1 + N / 1500 : 1;
            u64 points = 0;
            for(u64 n = 0; n <= N && !res.violation; n += (n < 3000 ? 1 : step))
            {
                points++;
                for(std::size_t i = 0; i < ops.size() && !res.violation; i++) c.run(ops[i], bytes, n, i);
            }
            if(step > 1)
                for(std::size_t i = 0; i < ops.size() && !res.violation; i++)
                    for(u64 n : {ops[i].extent - 1, ops[i].extent, ops[i].extent + 1})
                        if(n <= N && n >= 3000)
                        {
                            points++;
                            c.run(ops[i], bytes, n, i);
                        }
            if(!res.violation) c.run(ops[0], bytes, N, 0);
            sim::stats().count("fault.fired.truncate", points);
        }
        else if(op.name == "set" || op.name == "flip" || op.name == "stale")
        {
            // F2/F3/F4: hostile structural values / flipped bytes / stale tail under the op catalogue of the
            // original shape; positions and counts the buffer now claims differ, so only the safety half applies
            u64 nn = N;
            apply_byte_fault(op, sh, f, sf, bytes, nn, fs);
            c.converse = false;
        }
        else if(op.name == "one")
        {
            // a single (op index, n) point: the minimised form
            if(!ops.empty()) c.run(ops[(std::size_t)(op.uarg(0) % ops.size())], bytes, std::min<u64>(op.uarg(1), N), (std::size_t)(op.uarg(0) % ops.size()));
        }
        else if(op.name == "sample_ops")
        {
            // seeded subset: random (op, n) points, biased to n around the op's extent
            sim::Rng r(op.uarg(0) + 77);
            const u64 cnt = op.uarg(1);
            for(u64 k = 0; k < cnt && !res.violation && !ops.empty(); k++)
            {
                const std::size_t i = (std::size_t)r.below(ops.size());
                u64 n;
                switch(r.below(3))
                {
                case 0: n = r.below(N + 1); break;
                case 1: n = ops[i].extent > 2 ? ops[i].extent - 1 - r.below(3) : 0; break;
                default: n = std::min<u64>(N, ops[i].extent + r.below(2)); break;
                }
                c.run(ops[i], bytes, std::min(n, N), i);
            }
        }
    }
    res.fingerprint = fp.h;
    return res;
}

inline Plan gen_c10_wire(u64 seed, const std::string& tier)
{
    (void)tier;
    sim::Rng root(seed);
    sim::Rng wl = root.fork("workload"), fl = root.fork("faults");
    Plan p;
    p.set("property", "C10");
    p.set("engine", "wire");
    p.set("build", "checked");
    if(sim::options().count("known")) p.set("known", sim::options()["known"]);
    const auto& ds = consumer_drivers();
    const Driver& d = ds[wl.below(ds.size())];
    const SchemaShape& sh = *d.shape;
    p.set("schema", sh.name);
    p.seti("msg", (long long)wl.below(sh.messages.size()));
    p.seti("tree", (long long)(wl.next() >> 20));
    p.seti("walks", (long long)(wl.next() >> 40));
    if(fl.chance(1, 4)) p.seti("extend", 1);
    // every (n, op) point copies the frame: keep frames small here (extensions up to 300 cover the
    // 127/128/255/256 boundaries; the 32768/65536 ones are C03's)
    p.seti("maxboundary", 300);
    p.set("mode", "enumerate-truncations-x-op-catalogue");
    if(fl.chance(1, 4))
    {
        // header contents steering dynamic offsets: counts / lengths / block lengths nudged or hostile
        p.set("mode", "corrupted-structural-fields-x-truncations-x-op-catalogue (safety only)");
        const int nf = (int)fl.range(1, 2);
        for(int i = 0; i < nf; i++)
        {
            Op s;
            if(fl.chance(1, 5))
            {
                s.name = "flip";
                s.a = {(long long)fl.below(4096), (long long)(1u << fl.below(8))};
            }
            else
            {
                s.name = "set";
                long long v;
                switch(fl.below(6))
                {
                case 0: v = (long long)fl.below(4); break;
                case 1: v = (long long)fl.range(4, 40); break;
                case 2: v = 254; break;
                case 3: v = 65534; break;
                case 4: v = (long long)(fl.next() & 0xffffffffULL); break;
                default: v = -2; break; // all ones - 1 in any width
                }
                s.a = {(long long)fl.below(64), v};
            }
            p.ops.push_back(s);
        }
    }
    Op o;
    o.name = "sweep_ops";
    p.ops.push_back(o);
    return p;
}

inline Plan refine_c10(const Plan& p, const Result& r)
{
    auto kp = r.detail.rfind(" k=");
    auto op = r.detail.rfind(" op=");
    if(kp == std::string::npos || op == std::string::npos) return p;
    Plan q;
    q.head = p.head;
    for(auto& x : p.ops)
        if(x.name != "sweep_ops" && x.name != "one" && x.name != "sample_ops") q.ops.push_back(x);
    Op o;
    o.name = "one";
    o.a = {std::strtoll(r.detail.c_str() + op + 4, nullptr, 10), std::strtoll(r.detail.c_str() + kp + 3, nullptr, 10)};
    q.ops.push_back(o);
    return q;
}
} // namespace wire
