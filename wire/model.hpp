// Independent wire model (DESIGN.md appendices A, B): reference encoder,
// bounded reference walker, position bookkeeping. Generic over shape tables;
// never includes sbepp.
#pragma once
#include "../sim/rng.hpp"
#include "shape.hpp"

#include <algorithm>
#include <functional>
#include <string>
#include <vector>

namespace wire
{
using u128 = unsigned __int128;

inline u64 rd(const u8* p, int width, bool big)
{
    u64 v = 0;
    for(int i = 0; i < width; i++)
    {
        int sh = big ? (width - 1 - i) * 8 : i * 8;
        v |= u64(p[i]) << sh;
    }
    return v;
}

inline void wr(u8* p, int width, bool big, u64 v)
{
    for(int i = 0; i < width; i++)
    {
        int sh = big ? (width - 1 - i) * 8 : i * 8;
        p[i] = u8(v >> sh);
    }
}

inline u64 width_mask(int w)
{
    return w >= 8 ? ~0ULL : ((1ULL << (8 * w)) - 1);
}

struct GroupInst;

// One instance of a level: the message root or a group entry.
struct Node
{
    int level = -1;
    std::vector<u8> block; // wire block (>= compiled block length when extended)
    std::vector<GroupInst> groups;
    std::vector<std::vector<u8>> data;
    // filled by the encoder: absolute offsets in the frame
    u64 start = 0;                // message: frame start (header); entry: entry block start
    std::vector<u64> data_start;  // offset of each data member's length prefix
    u64 end = 0;                  // one past the last byte of this instance
};

struct GroupInst
{
    u64 wire_bl = 0; // blockLength written into the dimension
    std::vector<Node> entries;
    u64 start = 0; // offset of the dimension header
    u64 end = 0;
};

struct Frame
{
    int msg = 0; // index into shape.messages
    Node root;
    std::vector<u8> bytes;
};

// ---------------------------------------------------------------- encoder
struct Encoder
{
    const SchemaShape& sh;
    std::vector<u8>& out;

    void put_header_field(u64 base, const HField& f, u64 v)
    {
        if(f.off >= 0) wr(&out[base + (u64)f.off], f.width, sh.big, v);
    }

    void level_body(Node& n, const LevelShape& lv)
    {
        out.insert(out.end(), n.block.begin(), n.block.end());
        for(std::size_t gi = 0; gi < lv.groups.size(); gi++) group(n.groups[gi], lv.groups[gi]);
        n.data_start.clear();
        for(std::size_t di = 0; di < lv.data.size(); di++)
        {
            n.data_start.push_back(out.size());
            const int w = lv.data[di].len_width;
            out.resize(out.size() + (std::size_t)w);
            wr(&out[out.size() - (std::size_t)w], w, sh.big, n.data[di].size());
            out.insert(out.end(), n.data[di].begin(), n.data[di].end());
        }
        n.end = out.size();
    }

    void group(GroupInst& g, const GroupShape& gs)
    {
        const HeaderShape& h = sh.dims[(std::size_t)gs.dim];
        const LevelShape& lv = sh.levels[(std::size_t)gs.level];
        g.start = out.size();
        out.resize(out.size() + h.size, 0);
        put_header_field(g.start, h.block_length, g.wire_bl);
        put_header_field(g.start, h.num_in_group, g.entries.size());
        put_header_field(g.start, h.num_groups, lv.groups.size());
        put_header_field(g.start, h.num_var_data, lv.data.size());
        for(auto& e : g.entries)
        {
            e.start = out.size();
            level_body(e, lv);
        }
        g.end = out.size();
    }

    void message(Frame& f)
    {
        const LevelShape& lv = sh.levels[(std::size_t)sh.messages[(std::size_t)f.msg]];
        const HeaderShape& h = sh.msg_header;
        out.clear();
        f.root.start = 0;
        out.resize(h.size, 0);
        put_header_field(0, h.block_length, f.root.block.size());
        put_header_field(0, h.template_id, lv.template_id);
        put_header_field(0, h.schema_id, sh.schema_id);
        put_header_field(0, h.version, sh.version);
        put_header_field(0, h.num_groups, lv.groups.size());
        put_header_field(0, h.num_var_data, lv.data.size());
        level_body(f.root, lv);
    }
};

inline void encode(const SchemaShape& sh, Frame& f)
{
    Encoder e{sh, f.bytes};
    e.message(f);
}

// ------------------------------------------------------- value-tree generator
struct TreeParams
{
    unsigned max_count = 3;
    unsigned max_data = 40;
    bool extend = false; // F6: wire block lengths larger than compiled
    u64 max_boundary = 70000; // largest "boundary" extension value (127, 128, ..., 65536) that may be used
};

inline Node gen_node(const SchemaShape& sh, int level, sim::Rng& r, const TreeParams& tp, u64 wire_bl, int depth)
{
    const LevelShape& lv = sh.levels[(std::size_t)level];
    Node n;
    n.level = level;
    n.block.resize((std::size_t)wire_bl);
    for(auto& b : n.block) b = (u8)r.next();
    // random bytes almost never form a declared enum value: give enum members (also inside composites)
    // one of their valid values half of the time, so that value tags - not only the unknown tag - occur
    {
        std::function<void(const MemberShape&, u64)> fix = [&](const MemberShape& m, u64 abs) {
            if(m.kind == K_ENUM && m.aux >= 0 && !sh.valuesets[(std::size_t)m.aux].empty() && abs + m.size <= n.block.size())
            {
                if(r.chance(1, 2))
                {
                    const auto& vs = sh.valuesets[(std::size_t)m.aux];
                    wr(&n.block[abs], (int)m.size, sh.big, vs[r.below(vs.size())].value);
                }
            }
            else if(m.kind == K_COMPOSITE)
                for(auto& cm : sh.comps[(std::size_t)m.comp].members) fix(cm, abs + cm.offset);
        };
        for(auto& f : lv.fields) fix(f, f.offset);
    }
    for(auto& gs : lv.groups)
    {
        GroupInst g;
        const LevelShape& cl = sh.levels[(std::size_t)gs.level];
        const HeaderShape& h = sh.dims[(std::size_t)gs.dim];
        g.wire_bl = cl.block_length;
        if(tp.extend && r.chance(1, 2))
        {
            static const unsigned deltas[] = {1, 2, 3, 8, 13};
            u64 ext = g.wire_bl + deltas[r.below(5)];
            // sometimes extend up to a value around a signed/unsigned boundary of the narrower integer types
            if(r.chance(1, 4))
            {
                static const u64 bounds[] = {126, 127, 128, 129, 254, 255, 256, 257, 32767, 32768, 32769};
                const u64 b = bounds[r.below(depth == 0 ? 11 : 8)];
                if(b > g.wire_bl && b <= tp.max_boundary) ext = b;
            }
            if(ext <= (width_mask(h.block_length.width) - 1)) g.wire_bl = ext;
        }
        unsigned cnt;
        switch(r.below(4))
        {
        case 0: cnt = 0; break;
        case 1: cnt = 1; break;
        default: cnt = (unsigned)r.below(tp.max_count + 1); break;
        }
        if(depth >= 2 && cnt > 2) cnt = 2;
        if(g.wire_bl > 1000 && cnt > 2) cnt = 2; // keep frames well inside the arena window
        // numInGroup in the upper half of an 8-bit counter (where its signed counterpart is negative): flat groups
        // with short entries only, decided by a fork so that all other frames stay what they were
        if(gs.flat && h.num_in_group.width == 1 && g.wire_bl <= 16 && depth <= 1 && tp.max_boundary >= 255)
        {
            sim::Rng big = r.fork("count-in-upper-half");
            if(big.chance(1, 5))
            {
                // 255: every value of the counter's underlying type is a count the wire can carry
                static const unsigned counts[] = {127, 128, 129, 200, 253, 254, 255};
                cnt = counts[big.below(7)];
            }
        }
        cnt = (unsigned)std::min<u64>(cnt, width_mask(h.num_in_group.width) - (cnt == 255 ? 0 : 1));
        for(unsigned i = 0; i < cnt; i++) g.entries.push_back(gen_node(sh, gs.level, r, tp, g.wire_bl, depth + 1));
        n.groups.push_back(std::move(g));
    }
    for(auto& ds : lv.data)
    {
        unsigned len = r.chance(1, 4) ? 0 : (unsigned)r.below(tp.max_data + 1);
        len = (unsigned)std::min<u64>(len, width_mask(ds.len_width) - 1);
        std::vector<u8> d(len);
        for(auto& b : d) b = (u8)r.next();
        n.data.push_back(std::move(d));
    }
    return n;
}

inline Frame gen_frame(const SchemaShape& sh, int msg, sim::Rng& r, const TreeParams& tp)
{
    Frame f;
    f.msg = msg;
    const int level = sh.messages[(std::size_t)msg];
    const LevelShape& lv = sh.levels[(std::size_t)level];
    u64 bl = lv.block_length;
    if(tp.extend && r.chance(1, 2))
    {
        static const unsigned deltas[] = {1, 2, 3, 8, 21};
        u64 ext = bl + deltas[r.below(5)];
        if(r.chance(1, 5))
        {
            static const u64 bounds[] = {127, 128, 255, 256, 32767, 32768, 65535, 65536};
            const u64 b = bounds[r.below(8)];
            if(b > bl && b <= tp.max_boundary) ext = b;
        }
        if(ext <= width_mask(sh.msg_header.block_length.width) - 1) bl = ext;
    }
    f.root = gen_node(sh, level, r, tp, bl, 0);
    encode(sh, f);
    return f;
}

// --------------------------------------------------------- bounded walker
// Decides, looking only at bytes[0..n), whether the structure the buffer
// describes fits in n bytes, and its exact size. All arithmetic in 128 bits.
struct Walk
{
    bool valid = false;
    u64 size = 0;
    // first unmet requirement (when !valid)
    enum Item
    {
        NONE,
        MSG_HEADER,
        ROOT_BLOCK,
        DIM_HEADER,
        ENTRY_BLOCK,
        DATA_PREFIX,
        DATA_PAYLOAD
    } unmet = NONE;
    u64 unmet_pos = 0;  // where the unmet item starts
    u128 unmet_need = 0; // how many bytes it needs
    int unmet_width = 0; // DATA_PREFIX / DIM_HEADER: size of the item
    // levels reached validly whose wire block length is smaller than the compiled field extent
    struct ShortBlock
    {
        u64 start;
        u64 extent;
    };
    std::vector<ShortBlock> short_blocks;
    u64 steps = 0;
    bool aborted = false; // step budget exceeded (hostile counts with empty entries)
};

struct Walker
{
    const SchemaShape& sh;
    const u8* b;
    u64 n;
    u128 pos = 0;
    Walk w;
    u64 step_budget = 5000000;

    bool need(u128 k, Walk::Item item, int width = 0)
    {
        if(pos + k > (u128)n)
        {
            w.unmet = item;
            w.unmet_pos = (u64)pos;
            w.unmet_need = k;
            w.unmet_width = width;
            return false;
        }
        return true;
    }

    bool level(const LevelShape& lv)
    {
        for(auto& gs : lv.groups)
        {
            const HeaderShape& h = sh.dims[(std::size_t)gs.dim];
            const LevelShape& cl = sh.levels[(std::size_t)gs.level];
            if(!need(h.size, Walk::DIM_HEADER, (int)h.size)) return false;
            const u64 bl = rd(b + (u64)pos + (u64)h.block_length.off, h.block_length.width, sh.big);
            const u64 cnt = rd(b + (u64)pos + (u64)h.num_in_group.off, h.num_in_group.width, sh.big);
            pos += h.size;
            if(cl.groups.empty() && cl.data.empty())
            {
                // flat: cnt * bl bytes, no need to look at each entry
                if(cnt && bl < cl.computed) w.short_blocks.push_back({(u64)pos, cl.computed});
                if(!need((u128)cnt * bl, Walk::ENTRY_BLOCK)) return false;
                pos += (u128)cnt * bl;
                continue;
            }
            for(u64 i = 0; i < cnt; i++)
            {
                if(++w.steps > step_budget)
                {
                    w.aborted = true;
                    return false;
                }
                if(!need(bl, Walk::ENTRY_BLOCK)) return false;
                if(bl < cl.computed) w.short_blocks.push_back({(u64)pos, cl.computed});
                pos += bl;
                if(!level(cl)) return false;
            }
        }
        for(auto& ds : lv.data)
        {
            if(!need((u128)ds.len_width, Walk::DATA_PREFIX, ds.len_width)) return false;
            const u64 len = rd(b + (u64)pos, ds.len_width, sh.big);
            pos += (u128)ds.len_width;
            if(!need(len, Walk::DATA_PAYLOAD)) return false;
            pos += len;
        }
        return true;
    }

    Walk message(int msg)
    {
        const LevelShape& lv = sh.levels[(std::size_t)sh.messages[(std::size_t)msg]];
        const HeaderShape& h = sh.msg_header;
        if(!need(h.size, Walk::MSG_HEADER, (int)h.size)) return w;
        const u64 bl = rd(b + (u64)h.block_length.off, h.block_length.width, sh.big);
        pos = h.size;
        if(!need(bl, Walk::ROOT_BLOCK)) return w;
        if(bl < lv.computed) w.short_blocks.push_back({(u64)pos, lv.computed});
        pos += bl;
        if(!level(lv)) return w;
        w.valid = true;
        w.size = (u64)pos;
        return w;
    }

    // a group view that starts at byte 0 of the buffer
    Walk group(const GroupShape& gs)
    {
        LevelShape fake;
        fake.groups.push_back(gs);
        if(!level(fake)) return w;
        w.valid = true;
        w.size = (u64)pos;
        return w;
    }
};

inline Walk walk_message(const SchemaShape& sh, int msg, const u8* b, u64 n)
{
    Walker wk{sh, b, n};
    return wk.message(msg);
}

inline Walk walk_group(const SchemaShape& sh, const GroupShape& gs, const u8* b, u64 n)
{
    Walker wk{sh, b, n};
    return wk.group(gs);
}

// Every structural field of a frame (for F2 fault placement): where it is,
// how wide, and what it is.
struct StructField
{
    enum What
    {
        MSG_BLOCK_LENGTH,
        GROUP_BLOCK_LENGTH,
        NUM_IN_GROUP,
        DATA_LENGTH
    } what;
    u64 pos;
    int width;
    u64 compiled; // compiled block length where applicable
};

inline void collect_struct_fields(const SchemaShape& sh, const Node& n, std::vector<StructField>& out)
{
    const LevelShape& lv = sh.levels[(std::size_t)n.level];
    for(std::size_t gi = 0; gi < lv.groups.size(); gi++)
    {
        const GroupInst& g = n.groups[gi];
        const HeaderShape& h = sh.dims[(std::size_t)lv.groups[gi].dim];
        out.push_back({StructField::GROUP_BLOCK_LENGTH, g.start + (u64)h.block_length.off, h.block_length.width, sh.levels[(std::size_t)lv.groups[gi].level].block_length});
        out.push_back({StructField::NUM_IN_GROUP, g.start + (u64)h.num_in_group.off, h.num_in_group.width, 0});
        for(auto& e : g.entries) collect_struct_fields(sh, e, out);
    }
    for(std::size_t di = 0; di < lv.data.size(); di++) out.push_back({StructField::DATA_LENGTH, n.data_start[di], lv.data[di].len_width, 0});
}

inline std::vector<StructField> struct_fields(const SchemaShape& sh, const Frame& f)
{
    std::vector<StructField> out;
    const LevelShape& lv = sh.levels[(std::size_t)sh.messages[(std::size_t)f.msg]];
    out.push_back({StructField::MSG_BLOCK_LENGTH, (u64)sh.msg_header.block_length.off, sh.msg_header.block_length.width, lv.block_length});
    collect_struct_fields(sh, f.root, out);
    return out;
}
} // namespace wire
