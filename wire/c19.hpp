// C19: visiting enumerates members faithfully, stops at any callback, leaves
// the cursor at the end; enum / set visits; by-tag access == named access.
// Expected event *structure* (kinds, tags, order, positions) comes from the
// model (DESIGN.md appendix E); the *values* delivered are compared with what
// the real named accessor returns on the same view.
#pragma once
#include "c04.hpp"

namespace wire
{
struct ExpEvent
{
    int kind;
    int tag;
    bool ticks;           // a stoppable callback (counts for stop_at)
    bool has_addr = false;
    long long addr = 0;   // expected address (structure)
    bool fetch = false;   // value to be fetched through the named accessor
    Req ra;               // how to fetch it
    u64 size = 0;
    long long cursor = -1; // where the cursor must be when the callback runs (message / group / entry callbacks)
    // enum value / set choice sub-events refer to the parent's fetched value
    int parent = -1;
    int valueset = -1;
    u64 bit = 0;
};

struct VisitModel
{
    const SchemaShape& sh;
    const Frame& f;
    std::vector<ExpEvent> ev;
    // the events of visit_children(entry) are a slice of the full traversal
    struct Sub
    {
        std::vector<PathStep> path;
        std::size_t begin, end;
        u64 end_off;
    };
    std::vector<Sub> subs;

    void value_subevents(const MemberShape& m, int parent_idx)
    {
        if(m.kind == K_ENUM)
        {
            ExpEvent e;
            e.kind = EV_ENUM_VALUE;
            e.tag = -9; // resolved from the parent's value
            e.ticks = false;
            e.parent = parent_idx;
            e.valueset = m.aux;
            ev.push_back(e);
        }
        else if(m.kind == K_SET)
        {
            for(auto& c : sh.valuesets[(std::size_t)m.aux])
            {
                ExpEvent e;
                e.kind = EV_SET_CHOICE;
                e.tag = c.tag;
                e.ticks = false;
                e.parent = parent_idx;
                e.bit = c.value;
                ev.push_back(e);
            }
        }
    }

    void member(const MemberShape& m, int kind_for_event, const Req& base, int field, std::vector<int> cpath, u64 abs)
    {
        ExpEvent e;
        e.kind = kind_for_event;
        e.tag = m.tag;
        e.ticks = true;
        e.ra = base;
        e.ra.target = T_FIELD;
        e.ra.member = field;
        e.ra.cpath = cpath;
        e.ra.sub = GET;
        if(m.kind == K_ARRAY || m.kind == K_COMPOSITE)
        {
            e.has_addr = true;
            e.addr = (long long)abs;
        }
        else
            e.fetch = true;
        ev.push_back(e);
        const int idx = (int)ev.size() - 1;
        if(m.kind == K_COMPOSITE)
        {
            const CompShape& c = sh.comps[(std::size_t)m.comp];
            for(std::size_t i = 0; i < c.members.size(); i++)
            {
                const MemberShape& cm = c.members[i];
                auto cp = cpath;
                cp.push_back((int)i);
                const int k = cm.kind == K_ENUM ? EV_ENUM : cm.kind == K_SET ? EV_SET : cm.kind == K_COMPOSITE ? EV_COMPOSITE : EV_TYPE;
                member(cm, k, base, field, cp, abs + cm.offset);
            }
        }
        else
            value_subevents(m, idx);
    }

    void level(const Node& n, const std::vector<PathStep>& path, bool is_msg)
    {
        const LevelShape& lv = sh.levels[(std::size_t)n.level];
        Req base;
        base.msg = f.msg;
        base.path = path;
        const u64 block_start = is_msg ? sh.msg_header.size : n.start;
        for(std::size_t i = 0; i < lv.fields.size(); i++) member(lv.fields[i], EV_FIELD, base, (int)i, {}, block_start + lv.fields[i].offset);
        for(std::size_t gi = 0; gi < lv.groups.size(); gi++)
        {
            const GroupInst& g = n.groups[gi];
            ExpEvent e;
            e.kind = EV_GROUP;
            e.tag = lv.groups[gi].tag;
            e.ticks = true;
            e.ra = base;
            e.ra.target = T_GROUP;
            e.ra.member = (int)gi;
            e.ra.sub = G_ADDR;
            e.has_addr = true;
            e.addr = (long long)g.start;
            // the group accessor was called with the plain cursor: it now sits at the end of the dimension header
            e.cursor = (long long)(g.start + sh.dims[(std::size_t)lv.groups[gi].dim].size);
            ev.push_back(e);
            const LevelShape& cl = sh.levels[(std::size_t)lv.groups[gi].level];
            const bool memberless = cl.fields.empty() && cl.groups.empty() && cl.data.empty();
            for(std::size_t ei = 0; ei < g.entries.size(); ei++)
            {
                ExpEvent x;
                x.kind = EV_ENTRY;
                x.tag = -1;
                x.ticks = true;
                x.has_addr = true;
                x.addr = (long long)g.entries[ei].start;
                // entries are created from the cursor; one without members has already been stepped over
                x.cursor = (long long)g.entries[ei].start + (memberless ? (long long)g.wire_bl : 0);
                ev.push_back(x);
                auto p2 = path;
                p2.push_back({(int)gi, (u64)ei});
                const std::size_t b = ev.size();
                level(g.entries[ei], p2, false);
                if(subs.size() < 6) subs.push_back({p2, b, ev.size(), g.entries[ei].end});
            }
        }
        for(std::size_t di = 0; di < lv.data.size(); di++)
        {
            ExpEvent e;
            e.kind = EV_DATA;
            e.tag = lv.data[di].tag;
            e.ticks = true;
            e.ra = base;
            e.ra.target = T_DATA;
            e.ra.member = (int)di;
            e.ra.sub = D_ADDR;
            e.has_addr = true;
            e.addr = (long long)n.data_start[di];
            e.size = n.data[di].size();
            ev.push_back(e);
        }
    }

    void message()
    {
        ExpEvent e;
        e.kind = EV_MESSAGE;
        e.tag = sh.levels[(std::size_t)f.root.level].tag;
        e.ticks = true;
        e.has_addr = true;
        e.addr = 0;
        e.cursor = (long long)sh.msg_header.size; // init_cursor: right behind the header
        ev.push_back(e);
        level(f.root, {}, true);
    }
};

inline const char* ev_name(int k)
{
    static const char* n[] = {"on_message", "on_group", "on_entry", "on_field", "on_data", "on_composite", "on_type", "on_enum", "on_set", "on_enum_value", "on_set_choice"};
    return k >= 0 && k <= EV_SET_CHOICE ? n[k] : "?";
}

inline Result exec_c19(const Plan& plan)
{
    Result res;
    FrameSpec fs;
    if(!frame_spec(plan, fs))
    {
        res.signature = "HARNESS:bad-frame-spec";
        return res;
    }
    PlanBudget budget(30000);
    sim::Hasher fp;
    const Driver& drv = *fs.drv;
    const SchemaShape& sh = *drv.shape;
    Frame f = make_frame(fs);
    const u64 N = f.bytes.size();
    const std::set<std::string> known = known_set(plan);
    auto fail = [&](const std::string& cls0, const std::string& detail) {
        if(res.violation) return;
        std::string cls = cls0;
        // a message with no members at all never moves the cursor past its (non-empty) block
        if(cls == "end-position" && memberless_message_with_block(sh, f)) cls += ":memberless-message";
        if(is_known(res, known, "C19:" + cls)) return;
        res.violation = true;
        res.signature = "C19:" + cls;
        res.detail = detail + " [schema " + sh.name + " msg " + std::to_string(fs.msg) + " tree " + std::to_string(fs.tree_seed) + (fs.tp.extend ? " extended" : "") + (drv.checked ? " checked" : " unchecked") + "]";
    };
    auto tagname = [&](int t) { return t >= 0 && t < (int)sh.tags.size() ? std::string(sh.tags[(std::size_t)t]) : t == -1 ? std::string("(entry)") : t == -2 ? std::string("unknown_enum_value_tag") : std::string("(tag not in schema)"); };
    u8* p = sim::arena_place((std::size_t)N);
    std::memcpy(p, f.bytes.data(), (std::size_t)N);
    VisitModel vm{sh, f};
    vm.message();
    // ---- (a) complete visit
    Req rq;
    rq.msg = fs.msg;
    rq.p = p;
    rq.n = (std::size_t)N;
    rq.target = T_MESSAGE;
    rq.sub = M_VISIT_FULL;
    rq.stop_at = -1;
    Res full;
    Outcome o = call_driver(drv, rq, full);
    sim::stats().count("c19.visits");
    if(o.kind != Out::DONE)
    {
        fail(std::string("visit-") + sim::out_name(o.kind), "a complete visit of a well-formed frame ended with " + std::string(sim::out_name(o.kind)) + (o.kind == Out::HANDLER ? std::string(" `") + o.expr + "`" : ""));
        return res;
    }
    fp.add((u64)full.events.size());
    for(auto& ev : full.events)
    {
        fp.add((u64)ev.kind);
        fp.add((u64)ev.tag);
        fp.add(ev.bits);
        fp.add((u64)ev.addr_off);
    }
    // resolve value-dependent expectations through the named accessors
    Res rr;
    std::vector<u64> fetched(vm.ev.size(), 0);
    for(std::size_t i = 0; i < vm.ev.size(); i++)
    {
        ExpEvent& e = vm.ev[i];
        if(e.fetch)
        {
            Req ra = e.ra;
            ra.p = p;
            ra.n = (std::size_t)N;
            Outcome o2 = call_driver(drv, ra, rr);
            if(o2.kind != Out::DONE || !rr.has_bits)
            {
                fail("named-accessor-failed", "named accessor for tag " + tagname(e.tag) + " failed on a well-formed frame");
                return res;
            }
            fetched[i] = rr.bits;
        }
        if(e.kind == EV_ENUM_VALUE)
        {
            e.tag = -2;
            for(auto& vt : sh.valuesets[(std::size_t)e.valueset])
                if(vt.value == fetched[(std::size_t)e.parent]) e.tag = vt.tag;
            fetched[i] = fetched[(std::size_t)e.parent];
        }
        if(e.kind == EV_SET_CHOICE) fetched[i] = (fetched[(std::size_t)e.parent] >> e.bit) & 1;
    }
    const std::size_t ncmp = std::min(full.events.size(), vm.ev.size());
    for(std::size_t i = 0; i < ncmp; i++)
    {
        const Event& g = full.events[i];
        const ExpEvent& e = vm.ev[i];
        sim::stats().tuple(std::string(sh.name) + "|" + ev_name(e.kind));
        if(g.kind != e.kind || g.tag != e.tag)
        {
            fail("order", "event " + std::to_string(i + 1) + " is " + ev_name(g.kind) + "(" + tagname(g.tag) + "), schema order requires " + ev_name(e.kind) + "(" + tagname(e.tag) + ")");
            return res;
        }
        if(e.has_addr && (!g.has_addr || g.addr_off != e.addr))
        {
            fail("view", std::string(ev_name(e.kind)) + "(" + tagname(e.tag) + ") delivered a view at offset " + std::to_string(g.addr_off) + ", the member is at " + std::to_string(e.addr));
            return res;
        }
        if((e.fetch || e.kind == EV_ENUM_VALUE || e.kind == EV_SET_CHOICE) && (!g.has_bits || g.bits != fetched[i]))
        {
            fail("value", std::string(ev_name(e.kind)) + "(" + tagname(e.tag) + ") delivered " + std::to_string(g.bits) + ", the named accessor returns " + std::to_string(fetched[i]));
            return res;
        }
        if(e.cursor >= 0 && g.cursor_off != e.cursor)
        {
            fail("callback-cursor", std::string(ev_name(e.kind)) + "(" + tagname(e.tag) + ") ran with the cursor at " + std::to_string(g.cursor_off) + ", the view it was handed starts its children at " + std::to_string(e.cursor));
            return res;
        }
        if(e.kind == EV_DATA && g.size != e.size)
        {
            fail("value", "on_data(" + tagname(e.tag) + ") delivered a view of size " + std::to_string(g.size) + ", expected " + std::to_string(e.size));
            return res;
        }
    }
    if(full.events.size() != vm.ev.size())
    {
        fail("completeness", "the visit produced " + std::to_string(full.events.size()) + " events, the schema has " + std::to_string(vm.ev.size()) + (full.events.size() > ncmp ? "; extra: " + std::string(ev_name(full.events[ncmp].kind)) + "(" + tagname(full.events[ncmp].tag) + ")" : "; missing: " + std::string(ev_name(vm.ev[ncmp].kind)) + "(" + tagname(vm.ev[ncmp].tag) + ")"));
        return res;
    }
    if(full.cursor_off != (long long)N)
    {
        fail("end-position", "after a complete visit the cursor is at " + std::to_string(full.cursor_off) + ", message end is " + std::to_string(N));
        return res;
    }
    // ---- (a'') the same complete visit through the mutable view with a mutable cursor
    {
        Req mq = rq;
        mq.stop_at = -1;
        mq.arg = 1;
        Res mr;
        Outcome mo = call_driver(drv, mq, mr);
        bool same = mo.kind == Out::DONE && mr.events.size() == full.events.size() && mr.cursor_off == full.cursor_off;
        for(std::size_t i = 0; same && i < mr.events.size(); i++)
            same = mr.events[i].kind == full.events[i].kind && mr.events[i].tag == full.events[i].tag && mr.events[i].bits == full.events[i].bits && mr.events[i].addr_off == full.events[i].addr_off;
        if(!same)
        {
            fail("mutable-visit", "visiting through the mutable view with a mutable cursor differs from visiting through a const view with a const cursor");
            return res;
        }
    }
    // ---- (a3) the other documented ways to start the same visit: visit(view, visitor) without a cursor,
    //          visit<Visitor>(view) with a visitor the library default-constructs and returns, and
    //          visit_children(view, visitor) without a cursor (the same events minus the leading on_message);
    //          complete and cancelled at a seeded callback
    {
        static const char* how[] = {"visit(view, visitor) without a cursor", "visit<Visitor>(view) with a default-constructed visitor", "visit_children(view, Visitor{}) without a cursor"};
        const long long nstop = (long long)full.events.size();
        for(int variant = 0; variant < 3 && !res.violation; variant++)
        {
            for(long long stop : {(long long)-1, nstop > 2 ? 1 + (long long)((N * 7 + (u64)variant * 13) % (u64)(nstop - 2)) : (long long)-1})
            {
                // reference: the cursor form with the same stopping point
                Req q0 = rq;
                q0.stop_at = variant == 2 && stop > 0 ? stop + 1 : stop; // visit_children skips on_message: one tick less
                q0.arg = 0;
                Res r0;
                Outcome o0 = call_driver(drv, q0, r0);
                Req q1 = rq;
                q1.stop_at = stop;
                q1.arg = variant == 0 ? 2 : variant == 1 ? 4 : 8;
                Res r1;
                Outcome o1 = call_driver(drv, q1, r1);
                sim::stats().count("c19.visits_through_other_overloads");
                const std::size_t skip = variant == 2 ? 1 : 0;
                bool same = o1.kind == o0.kind && r1.events.size() + skip == r0.events.size();
                for(std::size_t i = 0; same && i < r1.events.size(); i++)
                {
                    const Event &a = r1.events[i], &b = r0.events[i + skip];
                    same = a.kind == b.kind && a.tag == b.tag && a.bits == b.bits && a.addr_off == b.addr_off && a.size == b.size;
                }
                if(!same)
                {
                    fail("overload", std::string(how[variant]) + (stop > 0 ? " stopped at callback " + std::to_string(stop) : " (complete)") + " delivered " + std::to_string(r1.events.size()) + " events (" + sim::out_name(o1.kind) + "), visit(view, cursor, visitor) " + std::to_string(r0.events.size()) + " (" + sim::out_name(o0.kind) + ")");
                    break;
                }
                if(stop < 0 && nstop <= 2) break;
            }
        }
        if(res.violation) return res;
    }
    // ---- (a') visit_children called directly on group entries: the same events as the corresponding slice
    //          of the complete traversal, cursor at the end of the entry afterwards
    for(const auto& sub : vm.subs)
    {
        Req sq;
        sq.msg = fs.msg;
        sq.p = p;
        sq.n = (std::size_t)N;
        sq.target = T_LEVEL;
        sq.sub = L_VISIT_CHILDREN;
        sq.path = sub.path;
        sq.stop_at = -1;
        Res sr;
        Outcome so = call_driver(drv, sq, sr);
        sim::stats().count("c19.entry_visits");
        if(so.kind != Out::DONE)
        {
            fail("entry-visit", "visit_children on a group entry ended with " + std::string(sim::out_name(so.kind)));
            return res;
        }
        bool same = sr.events.size() == sub.end - sub.begin;
        for(std::size_t i = 0; same && i < sr.events.size(); i++)
        {
            const Event& x = sr.events[i];
            const Event& y = full.events[sub.begin + i];
            same = x.kind == y.kind && x.tag == y.tag && x.bits == y.bits && x.addr_off == y.addr_off;
        }
        if(!same)
        {
            fail("entry-visit", "visit_children on a group entry (" + std::to_string(sr.events.size()) + " events) differs from the part of the complete traversal that covers the same entry (" + std::to_string(sub.end - sub.begin) + " events)");
            return res;
        }
        if(sub.end > sub.begin && sr.cursor_off != (long long)sub.end_off)
        {
            fail("entry-visit", "after visit_children on a group entry the cursor is at " + std::to_string(sr.cursor_off) + ", the entry ends at " + std::to_string(sub.end_off));
            return res;
        }
    }
    // ---- (b) cancellation at every callback
    long long ticks = 0;
    std::vector<std::size_t> tick_index; // event index of the k-th ticking callback
    for(std::size_t i = 0; i < vm.ev.size(); i++)
        if(vm.ev[i].ticks)
        {
            ticks++;
            tick_index.push_back(i);
        }
    const long long from = plan.geti("stop_from", 1), to = plan.geti("stop_to", ticks);
    Res cut;
    for(long long k = std::max<long long>(1, from); k <= std::min(to, ticks); k++)
    {
        rq.stop_at = k;
        Outcome oc = call_driver(drv, rq, cut);
        sim::stats().count("fault.fired.cancel_at_callback");
        const std::size_t want = tick_index[(std::size_t)k - 1] + 1;
        const ExpEvent& at = vm.ev[want - 1];
        if(at.kind == EV_ENTRY || at.kind == EV_GROUP) sim::stats().count("probe.cancel_inside_group");
        if(oc.kind != Out::DONE)
        {
            fail(std::string("cancel-") + sim::out_name(oc.kind), "visit cancelled at callback " + std::to_string(k) + " ended with " + sim::out_name(oc.kind) + " stop=" + std::to_string(k));
            return res;
        }
        if(cut.events.size() != want)
        {
            fail(cut.events.size() > want ? "cancel-ignored" : "cancel-early", "callback " + std::to_string(k) + " (" + ev_name(at.kind) + " " + tagname(at.tag) + ") returned true: " + std::to_string(cut.events.size()) + " events were delivered instead of " + std::to_string(want) + (cut.events.size() > want ? "; first extra: " + std::string(ev_name(cut.events[want].kind)) + "(" + tagname(cut.events[want].tag) + ")" : "") + " stop=" + std::to_string(k));
            return res;
        }
        for(std::size_t i = 0; i < want; i++)
            if(cut.events[i].kind != full.events[i].kind || cut.events[i].tag != full.events[i].tag || cut.events[i].bits != full.events[i].bits || cut.events[i].addr_off != full.events[i].addr_off)
            {
                fail("cancel-prefix", "the events before the stopping callback differ from the complete visit at event " + std::to_string(i + 1) + " stop=" + std::to_string(k));
                return res;
            }
    }
    // ---- (c) by-tag access == named access (values and bytes written)
    std::vector<u8> a(N), b(N);
    for(std::size_t i = 0; i < vm.ev.size(); i++)
    {
        const ExpEvent& e = vm.ev[i];
        if(e.kind == EV_GROUP || e.kind == EV_DATA)
        {
            // get_by_tag<GroupTag / DataTag>(level) must hand out the same view as the named accessor
            Req rg = e.ra;
            rg.p = p;
            rg.n = (std::size_t)N;
            Res ta, tb;
            Outcome oa = call_driver(drv, rg, ta);
            rg.sub = GET_BY_TAG;
            Outcome ob = call_driver(drv, rg, tb);
            sim::stats().count("c19.by_tag_pairs");
            if(oa.kind != ob.kind || ta.addr_off != tb.addr_off || ta.has_addr != tb.has_addr)
            {
                fail("get-by-tag", "get_by_tag<" + tagname(e.tag) + "> differs from the named accessor");
                return res;
            }
            continue;
        }
        if(!e.ticks || !(e.kind == EV_FIELD || e.kind == EV_TYPE || e.kind == EV_ENUM || e.kind == EV_SET || e.kind == EV_COMPOSITE)) continue;
        Req r1 = e.ra;
        r1.p = p;
        r1.n = (std::size_t)N;
        r1.sub = GET_BY_TAG;
        Res t1, t2;
        Outcome o1 = call_driver(drv, r1, t1);
        r1.sub = GET;
        Outcome o2 = call_driver(drv, r1, t2);
        sim::stats().count("c19.by_tag_pairs");
        if(o1.kind != o2.kind || t1.has_bits != t2.has_bits || t1.bits != t2.bits || t1.has_addr != t2.has_addr || t1.addr_off != t2.addr_off)
        {
            fail("get-by-tag", "get_by_tag<" + tagname(e.tag) + "> differs from the named accessor");
            return res;
        }
        if(e.fetch && e.ra.target == T_FIELD)
        {
            // sets: every choice through its named accessor and by tag, read and toggled
            Req rc = e.ra;
            rc.p = p;
            rc.n = (std::size_t)N;
            rc.sub = SET_CHOICES;
            Res tc;
            Outcome oc = call_driver(drv, rc, tc);
            if(!tc.unsupported)
            {
                sim::stats().count("c19.set_choice_probes");
                if(oc.kind != Out::DONE)
                {
                    fail("set-choices", "choice accessors of set " + tagname(e.tag) + " ended with " + sim::out_name(oc.kind));
                    return res;
                }
                const u64 raw = tc.bits;
                const std::size_t nch = tc.events.size() / 4;
                for(std::size_t k = 0; k < nch; k++)
                {
                    const u64 bit = (u64)tc.events[2 * k].tag;
                    const u64 want = (raw >> bit) & 1;
                    if(tc.events[2 * k].bits != want || tc.events[2 * k + 1].bits != want)
                    {
                        fail("set-choices", "choice at bit " + std::to_string(bit) + " of set " + tagname(e.tag) + ": named getter " + std::to_string(tc.events[2 * k].bits) + ", get_by_tag " + std::to_string(tc.events[2 * k + 1].bits) + ", the underlying value 0x" + std::to_string(raw) + " has " + std::to_string(want));
                        return res;
                    }
                    const u64 toggled = raw ^ (1ULL << bit);
                    const Event& n1 = tc.events[2 * nch + 2 * k];
                    const Event& n2 = tc.events[2 * nch + 2 * k + 1];
                    if(n1.bits != n2.bits || n1.bits != toggled)
                    {
                        fail("set-choices", "toggling the choice at bit " + std::to_string(bit) + " of set " + tagname(e.tag) + " gives 0x" + std::to_string(n1.bits) + " through the named setter and 0x" + std::to_string(n2.bits) + " through set_by_tag; exactly that bit of 0x" + std::to_string(raw) + " must change");
                        return res;
                    }
                }
            }
        }
        if(e.fetch)
        {
            // set a different value through both routes on two copies of the medium
            const u64 nv = fetched[i] ^ 0x5A;
            for(int route = 0; route < 2; route++)
            {
                std::memcpy(p, f.bytes.data(), (std::size_t)N);
                r1.sub = route ? SET_BY_TAG : SET;
                r1.arg = nv;
                Outcome os = call_driver(drv, r1, t1);
                if(os.kind != Out::DONE)
                {
                    fail("set-by-tag", std::string(route ? "set_by_tag<" : "setter <") + tagname(e.tag) + "> ended with " + sim::out_name(os.kind));
                    return res;
                }
                std::memcpy(route ? b.data() : a.data(), p, (std::size_t)N);
            }
            std::memcpy(p, f.bytes.data(), (std::size_t)N);
            if(a != b)
            {
                fail("set-by-tag", "set_by_tag<" + tagname(e.tag) + "> wrote different bytes than the named setter");
                return res;
            }
        }
    }
    // ---- (d) cursor forms of by-tag access: the same scripted walk through the named cursor
    //          accessors and through get_by_tag/set_by_tag(view, ..., cursor) must be identical
    {
        std::memcpy(p, f.bytes.data(), (std::size_t)N);
        sim::Rng wr(fs.tree_seed ^ 0xC19);
        for(int variant = 0; variant < 3; variant++)
        {
            std::vector<Decision> raw;
            for(int i = 0; i < 300; i++)
            {
                Decision d;
                d.wrapper = variant == 0 ? W_PLAIN : variant == 1 ? (int)wr.below(5) : (i % 2 ? W_INIT : W_DONT_MOVE);
                d.write = variant == 1 && wr.chance(1, 3);
                d.split = variant == 1 ? (int)wr.below(3) - 1 : -1;
                raw.push_back(d);
            }
            CursorModel cm{sh, f, raw, false};
            cm.run();
            Req wq;
            wq.msg = fs.msg;
            wq.p = p;
            wq.n = (std::size_t)N;
            wq.target = T_MESSAGE;
            wq.sub = M_CURSOR_WALK;
            wq.script = &cm.script;
            Res named, tagged;
            wq.arg = 0;
            Outcome o1 = call_driver(drv, wq, named);
            wq.arg = 4;
            Outcome o2 = call_driver(drv, wq, tagged);
            sim::stats().count("c19.by_tag_cursor_walks");
            if(tagged.api_gap)
            {
                fail("by-tag-unavailable", tagged.api_gap);
                return res;
            }
            bool same = o1.kind == o2.kind && named.csteps.size() == tagged.csteps.size() && named.cursor_off == tagged.cursor_off && named.size == tagged.size;
            std::size_t at = 0;
            for(; same && at < named.csteps.size(); at++)
            {
                const CursorStep& x = named.csteps[at];
                const CursorStep& y = tagged.csteps[at];
                same = x.cursor_off == y.cursor_off && x.has_bits == y.has_bits && x.bits == y.bits && x.has_addr == y.has_addr && x.addr_off == y.addr_off;
                if(!same) break;
            }
            if(!same)
            {
                fail("by-tag-cursor", "a cursor walk through get_by_tag/set_by_tag(view, ..., cursor) differs from the same walk through the named cursor accessors (variant " + std::to_string(variant) + ", first difference at call " + std::to_string(at + 1) + ": cursor " + (at < named.csteps.size() && at < tagged.csteps.size() ? std::to_string(named.csteps[at].cursor_off) + " vs " + std::to_string(tagged.csteps[at].cursor_off) : std::string("n/a")) + ", outcomes " + sim::out_name(o1.kind) + "/" + sim::out_name(o2.kind) + ")");
                return res;
            }
            if(std::memcmp(p, f.bytes.data(), (std::size_t)N) != 0)
            {
                fail("by-tag-cursor", "set_by_tag through a cursor changed bytes although the value written is the one already stored");
                return res;
            }
        }
    }
    res.fingerprint = fp.h;
    return res;
}

inline Plan gen_c19(u64 seed, const std::string& tier)
{
    (void)tier;
    sim::Rng root(seed);
    sim::Rng wl = root.fork("workload");
    Plan p;
    p.set("property", "C19");
    p.set("engine", "wire");
    if(sim::options().count("known")) p.set("known", sim::options()["known"]);
    const auto& ds = consumer_drivers();
    const Driver& d = ds[wl.below(ds.size())];
    const SchemaShape& sh = *d.shape;
    p.set("build", d.checked ? "checked" : "unchecked");
    p.set("schema", sh.name);
    p.seti("msg", (long long)wl.below(sh.messages.size()));
    p.seti("tree", (long long)(wl.next() >> 20));
    if(wl.chance(1, 3)) p.seti("extend", 1);
    p.set("mode", "enumerate-every-cancellation-point");
    return p;
}

inline Plan refine_c19(const Plan& p, const Result& r)
{
    auto sp = r.detail.rfind(" stop=");
    if(sp == std::string::npos) return p;
    const long long k = std::strtoll(r.detail.c_str() + sp + 6, nullptr, 10);
    Plan q = p;
    q.seti("stop_from", k);
    q.seti("stop_to", k);
    return q;
}
} // namespace wire
