// C03: decoding honours the wire blockLength (mixed-version peers).
// The producing peer runs a later schema version: the root block and/or group
// entry blocks are longer than the compiled ones (F6). Every compiled field,
// entry, nested group, data member and every size must be found where the
// wire image puts them - by random access, cursor access and visiting alike.
// This oracle compares with the independent model (values and positions).
#pragma once
#include "c19.hpp"

namespace wire
{
inline u64 payload_hash(const std::vector<u8>& d)
{
    u64 sum = 0;
    for(u8 b : d) sum = sum * 131 + b;
    return sum;
}

// Bytes of a block that no field covers (gaps left by explicit offsets, reserved space of an explicit
// blockLength, padding inside composites) are not written by any producer: in a tree that a real
// encoder is going to reproduce over a zeroed slot they are zero.
inline void zero_uncovered(const SchemaShape& sh, Node& n)
{
    const LevelShape& lv = sh.levels[(std::size_t)n.level];
    std::vector<bool> cov(n.block.size(), false);
    std::function<void(const MemberShape&, u64)> mark = [&](const MemberShape& m, u64 abs) {
        if(m.kind == K_COMPOSITE)
        {
            for(auto& cm : sh.comps[(std::size_t)m.comp].members) mark(cm, abs + cm.offset);
            return;
        }
        for(u64 i = abs; i < abs + m.size && i < cov.size(); i++) cov[(std::size_t)i] = true;
    };
    for(auto& f : lv.fields) mark(f, f.offset);
    for(std::size_t i = 0; i < cov.size(); i++)
        if(!cov[i]) n.block[i] = 0;
    for(auto& g : n.groups)
        for(auto& e : g.entries) zero_uncovered(sh, e);
}

struct C03
{
    const Driver& drv;
    const SchemaShape& sh;
    const Frame& f;
    u8* p;
    u64 N;
    Result& res;
    std::string ctx;
    u64 checks = 0;

    std::set<std::string> known;
    void fail(const std::string& cls0, const std::string& detail)
    {
        if(res.violation) return;
        std::string cls = cls0;
        if((cls == "cursor-end" || cls == "visit-end") && memberless_message_with_block(sh, f)) cls += ":memberless-message";
        if(is_known(res, known, "C03:" + cls)) return;
        res.violation = true;
        res.signature = "C03:" + cls;
        res.detail = detail + ctx;
    }

    bool ra(Req rq, Res& rs, const std::string& what)
    {
        rq.msg = f.msg;
        rq.p = p;
        rq.n = (std::size_t)N;
        Outcome o = call_driver(drv, rq, rs);
        checks++;
        if(o.kind != Out::DONE)
        {
            fail(std::string("access-") + sim::out_name(o.kind), what + " ended with " + sim::out_name(o.kind) + (o.kind == Out::HANDLER ? std::string(" `") + o.expr + "` in " + o.func : " at offset " + std::to_string(o.off)) + " on a complete frame whose blocks are longer than the compiled ones");
            return false;
        }
        return true;
    }

    void leaf(const Req& base, const MemberShape& m, int field, std::vector<int> cpath, u64 abs, const std::string& lbl)
    {
        if(res.violation) return;
        Req rq = base;
        rq.target = T_FIELD;
        rq.member = field;
        rq.cpath = cpath;
        rq.sub = GET;
        Res rs;
        if(!ra(rq, rs, lbl)) return;
        if(m.kind == K_SCALAR || m.kind == K_ENUM || m.kind == K_SET)
        {
            const u64 want = rd(&f.bytes[abs], (int)m.size, sh.big);
            if(!rs.has_bits || rs.bits != want) fail("field-value", lbl + " = " + std::to_string(rs.bits) + " by random access, the wire image holds " + std::to_string(want) + " at offset " + std::to_string(abs));
        }
        else
        {
            if(!rs.has_addr || rs.addr_off != (long long)abs) fail("field-position", lbl + " found at offset " + std::to_string(rs.addr_off) + ", the wire image puts it at " + std::to_string(abs));
            if(m.kind == K_COMPOSITE)
            {
                const CompShape& c = sh.comps[(std::size_t)m.comp];
                for(std::size_t i = 0; i < c.members.size(); i++)
                {
                    auto cp = cpath;
                    cp.push_back((int)i);
                    leaf(base, c.members[i], field, cp, abs + c.members[i].offset, lbl + "." + c.members[i].name);
                }
            }
        }
    }

    void level(const Node& n, const std::vector<PathStep>& path, bool is_msg, const std::string& lbl)
    {
        if(res.violation) return;
        const LevelShape& lv = sh.levels[(std::size_t)n.level];
        Req base;
        base.path = path;
        const u64 block_start = is_msg ? sh.msg_header.size : n.start;
        Res rs;
        Req q = base;
        q.target = T_LEVEL;
        q.sub = L_SIZE_BYTES;
        if(!ra(q, rs, lbl + ".size_bytes")) return;
        if(rs.bits != n.end - n.start) return fail("size", "size_bytes(" + lbl + ") = " + std::to_string(rs.bits) + ", wire size " + std::to_string(n.end - n.start));
        for(std::size_t i = 0; i < lv.fields.size(); i++) leaf(base, lv.fields[i], (int)i, {}, block_start + lv.fields[i].offset, lbl + "." + lv.fields[i].name);
        for(std::size_t gi = 0; gi < lv.groups.size() && !res.violation; gi++)
        {
            const GroupInst& g = n.groups[gi];
            const std::string gl = lbl + "." + lv.groups[gi].name;
            q = base;
            q.target = T_GROUP;
            q.member = (int)gi;
            q.sub = G_ADDR;
            if(!ra(q, rs, gl)) return;
            if(rs.addr_off != (long long)g.start) return fail("group-position", gl + " found at offset " + std::to_string(rs.addr_off) + ", the wire image puts it at " + std::to_string(g.start));
            q.sub = G_SIZE;
            if(!ra(q, rs, gl + ".size")) return;
            if(rs.bits != g.entries.size()) return fail("group-size", gl + ".size() = " + std::to_string(rs.bits) + ", numInGroup on the wire is " + std::to_string(g.entries.size()));
            q.sub = G_SIZE_BYTES;
            if(!ra(q, rs, gl + ".size_bytes")) return;
            if(rs.bits != g.end - g.start) return fail("size", "size_bytes(" + gl + ") = " + std::to_string(rs.bits) + ", wire size " + std::to_string(g.end - g.start));
            q.sub = G_ITER;
            if(!ra(q, rs, gl + " iteration")) return;
            if(rs.events.size() != g.entries.size()) return fail("group-size", "iterating " + gl + " yields " + std::to_string(rs.events.size()) + " entries, wire has " + std::to_string(g.entries.size()));
            for(std::size_t ei = 0; ei < g.entries.size(); ei++)
                if(rs.events[ei].addr_off != (long long)g.entries[ei].start) return fail("entry-position", gl + " entry " + std::to_string(ei) + " found at offset " + std::to_string(rs.events[ei].addr_off) + ", expected header end + i x wire blockLength (+ nested content) = " + std::to_string(g.entries[ei].start));
            if(lv.groups[gi].flat)
                for(std::size_t ei = 0; ei < g.entries.size(); ei++)
                {
                    q.sub = G_INDEX;
                    q.arg = ei;
                    if(!ra(q, rs, gl + "[i]")) return;
                    if(rs.addr_off != (long long)g.entries[ei].start) return fail("entry-position", gl + "[" + std::to_string(ei) + "] found at offset " + std::to_string(rs.addr_off) + ", expected " + std::to_string(g.entries[ei].start));
                }
            if(lv.groups[gi].flat)
            {
                // iterator arithmetic: *(begin()+i), begin()[i], *(end()-(i+1))
                q.sub = G_ITER_INDEXED;
                if(!ra(q, rs, gl + " iterator arithmetic")) return;
                const std::size_t cnt = g.entries.size();
                if(rs.events.size() != 3 * cnt) return fail("group-size", "iterator arithmetic over " + gl + " visited " + std::to_string(rs.events.size() / 3) + " entries, wire has " + std::to_string(cnt));
                for(std::size_t ei = 0; ei < cnt; ei++)
                {
                    const long long want[3] = {(long long)g.entries[ei].start, (long long)g.entries[ei].start, (long long)g.entries[cnt - 1 - ei].start};
                    for(int k = 0; k < 3; k++)
                        if(rs.events[3 * ei + (std::size_t)k].addr_off != want[k]) return fail("entry-position", gl + (k == 0 ? " *(begin()+" : k == 1 ? " begin()[" : " *(end()-1-") + std::to_string(ei) + ") found at offset " + std::to_string(rs.events[3 * ei + (std::size_t)k].addr_off) + ", expected " + std::to_string(want[k]));
                }
            }
            if(lv.groups[gi].flat)
            {
                // the other forms: *(1 + it), *(it - 1), *(it++), it-- / --it, relational operators, it2 - it1
                q.sub = G_ITER_FORMS;
                if(!ra(q, rs, gl + " iterator forms")) return;
                const std::size_t cnt = g.entries.size();
                if(rs.events.size() != 5 * cnt) return fail("group-size", "iterator forms over " + gl + " visited " + std::to_string(rs.events.size() / 5) + " entries, wire has " + std::to_string(cnt));
                static const char* const kForm[5] = {" *(1 + it) -> entry ", " *(it - 1) -> entry ", " *(it++) at entry ", " it-- down to entry ", " --it down to entry "};
                for(std::size_t ei = 0; ei < cnt; ei++)
                    for(std::size_t k = 0; k < 5; k++)
                        if(rs.events[5 * ei + k].addr_off != (long long)g.entries[ei].start) return fail("entry-position", gl + kForm[k] + std::to_string(ei) + " found at offset " + std::to_string(rs.events[5 * ei + k].addr_off) + ", expected " + std::to_string(g.entries[ei].start));
                if(rs.bits != 0) return fail("iterator-relations", std::to_string(rs.bits) + " of the relational / distance / post-step answers of " + gl + "'s iterators contradict the entry indexes");
                sim::stats().count("probe.c03.iterator_forms_checked");
            }
            for(std::size_t ei = 0; ei < g.entries.size() && !res.violation; ei++)
            {
                auto p2 = path;
                p2.push_back({(int)gi, (u64)ei});
                level(g.entries[ei], p2, false, gl + "[" + std::to_string(ei) + "]");
            }
        }
        for(std::size_t di = 0; di < lv.data.size() && !res.violation; di++)
        {
            const std::string dl = lbl + "." + lv.data[di].name;
            q = base;
            q.target = T_DATA;
            q.member = (int)di;
            q.sub = D_ADDR;
            if(!ra(q, rs, dl)) return;
            if(rs.addr_off != (long long)n.data_start[di]) return fail("data-position", dl + " found at offset " + std::to_string(rs.addr_off) + ", the wire image puts it at " + std::to_string(n.data_start[di]));
            q.sub = D_SIZE;
            if(!ra(q, rs, dl + ".size")) return;
            if(rs.bits != n.data[di].size()) return fail("data-value", dl + ".size() = " + std::to_string(rs.bits) + ", wire length " + std::to_string(n.data[di].size()));
            q.sub = D_READ_ALL;
            if(!ra(q, rs, dl + " content")) return;
            if(rs.bits != payload_hash(n.data[di])) return fail("data-value", dl + " content differs from the wire image");
        }
    }
};

inline Result exec_c03(const Plan& plan)
{
    Result res;
    FrameSpec fs;
    if(!frame_spec(plan, fs))
    {
        res.signature = "HARNESS:bad-frame-spec";
        return res;
    }
    fs.tp.extend = true;
    PlanBudget budget(30000);
    sim::Hasher fp;
    const Driver& drv = *fs.drv;
    const SchemaShape& sh = *drv.shape;
    Frame f;
    if(plan.get("producer") == "real-v2")
    {
        // Both ends run real code: the image is produced by the *real* encoder sbeppc generates for a later
        // version of the schema (the same messages with fields appended to every block), driven by a value
        // tree of that version; the consumer is compiled from the original schema.
        const Driver* d2 = nullptr;
        for(auto& d : drivers())
            if(d.producer_only && d.checked == drv.checked && std::string(d.shape->name) == std::string(sh.name) + "v2") d2 = &d;
        if(!d2)
        {
            sim::stats().count("c03.real_v2.no_v2_driver_for_schema");
            res.fingerprint = 3;
            return res;
        }
        const SchemaShape& sh2 = *d2->shape;
        if(sh2.levels.size() != sh.levels.size() || sh2.messages.size() != sh.messages.size())
        {
            res.signature = "HARNESS:v2-shape-mismatch";
            return res;
        }
        TreeParams tp = fs.tp;
        tp.extend = false;
        sim::Rng r(fs.tree_seed * 0x9E3779B97F4A7C15ULL + 12345);
        Frame f2 = gen_frame(sh2, fs.msg, r, tp);
        zero_uncovered(sh2, f2.root);
        const std::size_t size = f2.bytes.size() + 32;
        u8* q = sim::arena_place(size);
        std::memset(q, 0, size);
        Req rq;
        rq.msg = fs.msg;
        rq.p = q;
        rq.n = size;
        rq.target = T_MESSAGE;
        rq.sub = M_ENCODE;
        rq.tree = &f2.root;
        rq.arg = (u64)(plan.geti("producer_cursor") ? 1 : 0);
        Res rs2;
        Outcome o2 = call_driver(*d2, rq, rs2);
        if(o2.kind != Out::DONE || !rs2.valid)
        {
            // the producing peer itself failed: not this property's subject
            sim::stats().count(std::string("c03.real_v2.producer_") + sim::out_name(o2.kind));
            res.fingerprint = 4;
            return res;
        }
        // the same tree as the original schema sees it: identical structure, blocks as long as version 2 made them
        f.msg = fs.msg;
        f.root = f2.root;
        encode(sh, f);
        std::vector<u8> image(q, q + rs2.size);
        bool same = image.size() == f.bytes.size();
        const HField& vf = sh.msg_header.version;
        for(std::size_t i = 0; same && i < image.size(); i++)
        {
            if(vf.off >= 0 && i >= (std::size_t)vf.off && i < (std::size_t)(vf.off + vf.width)) continue; // the version number differs by design
            if(image[i] != f.bytes[i]) same = false;
        }
        if(!same)
        {
            // producer and reference encoder disagree about the image: which one is right is C01's question
            // (not claimed); the consumer is not examined on an image the model cannot describe
            sim::stats().count("c03.real_v2.image_differs_from_reference_encoder");
            res.fingerprint = 5;
            return res;
        }
        f.bytes = image;
        sim::stats().count("c03.real_v2.frames");
    }
    else
        f = make_frame(fs);
    const u64 N = f.bytes.size();
    u8* p = sim::arena_place((std::size_t)N);
    std::memcpy(p, f.bytes.data(), (std::size_t)N);
    C03 c{drv, sh, f, p, N, res, ""};
    c.known = known_set(plan);
    c.ctx = std::string(" [schema ") + sh.name + " msg " + std::to_string(fs.msg) + " tree " + std::to_string(fs.tree_seed) + (drv.checked ? " checked" : " unchecked") + "]";
    // how much was extended (evidence: the F6 configuration actually in force)
    {
        const LevelShape& lv = sh.levels[(std::size_t)f.root.level];
        if(f.root.block.size() > lv.block_length) sim::stats().count("fault.fired.extend.root");
        std::function<void(const Node&)> cnt = [&](const Node& n) {
            const LevelShape& l2 = sh.levels[(std::size_t)n.level];
            for(std::size_t gi = 0; gi < l2.groups.size(); gi++)
            {
                if(n.groups[gi].wire_bl > sh.levels[(std::size_t)l2.groups[gi].level].block_length && !n.groups[gi].entries.empty()) sim::stats().count("fault.fired.extend.group");
                for(auto& e : n.groups[gi].entries) cnt(e);
            }
        };
        cnt(f.root);
    }
    // 1. random access everywhere
    c.level(f.root, {}, true, sh.levels[(std::size_t)f.root.level].name);
    sim::stats().count("c03.random_access_checks", c.checks);
    if(res.violation) return res;
    // 2. size_bytes_checked agrees with the wire size
    Res rs;
    {
        Req q;
        q.target = T_MESSAGE;
        q.sub = M_SBC;
        if(drv.checked)
        {
            // view bound to the buffer; no transport fault here
        }
        if(!c.ra(q, rs, "size_bytes_checked")) return res;
        if(!rs.valid || rs.size != N)
        {
            c.fail("size", "size_bytes_checked = " + std::to_string(rs.valid) + "/" + std::to_string(rs.size) + ", wire size " + std::to_string(N));
            return res;
        }
    }
    // 3. cursor traversals: all plain, and through every wrapper kind (legal scripts from the cursor
    //    model): every position and value against the wire image
    sim::Rng wr(fs.tree_seed ^ 0xC03);
    for(int variant = 0; variant < 7 && !res.violation; variant++)
    {
        std::vector<Decision> raw;
        if(variant > 0)
            for(int i = 0; i < 400; i++)
            {
                Decision d;
                switch(variant)
                {
                case 1: d.wrapper = W_INIT; break;
                case 2: d.wrapper = i % 2 ? W_PLAIN : W_DONT_MOVE; break;
                case 3: d.wrapper = i % 2 ? W_INIT : W_INIT_DONT_MOVE; break;
                case 4: d.wrapper = W_SKIP; break;
                case 5: d.wrapper = i % 3 == 2 ? W_SKIP : W_DONT_MOVE; break;
                default: d.wrapper = (int)wr.below(5); d.split = (int)wr.below(4) - 1; break;
                }
                raw.push_back(d);
            }
        CursorModel cm{sh, f, raw, false};
        cm.run();
        Req q;
        q.target = T_MESSAGE;
        q.sub = M_CURSOR_WALK;
        q.script = &cm.script;
        q.arg = cm.complete ? 0 : 2;
        static const char* vn[] = {"plain", "init", "dont_move+plain", "init_dont_move+init", "skip", "dont_move,dont_move,skip", "seeded mix"};
        const std::string vname = std::string("cursor traversal (") + vn[variant] + ")";
        if(!c.ra(q, rs, vname)) return res;
        if(rs.unsupported) continue; // fallback build of this schema's driver: wrappers are not bound
        sim::stats().count("c03.cursor_walks");
        if(rs.csteps.size() != cm.steps.size())
        {
            c.fail("cursor-steps", vname + " made " + std::to_string(rs.csteps.size()) + " calls, model " + std::to_string(cm.steps.size()));
            return res;
        }
        for(std::size_t i = 0; i < cm.steps.size(); i++)
        {
            const ExpStep& e = cm.steps[i];
            const CursorStep& g = rs.csteps[i];
            if(g.cursor_off != e.cursor_after)
            {
                c.fail("cursor-position", vname + " step " + std::to_string(i + 1) + " left the cursor at " + std::to_string(g.cursor_off) + ", the wire image requires " + std::to_string(e.cursor_after));
                return res;
            }
            if(!e.compare_value) continue;
            const LevelShape& lv = sh.levels[(std::size_t)e.level];
            if(e.mkind == T_FIELD)
            {
                const MemberShape& m = lv.fields[(std::size_t)e.member];
                const u64 abs = (e.path.empty() ? sh.msg_header.size : e.inst_start) + m.offset;
                if(m.kind == K_SCALAR || m.kind == K_ENUM || m.kind == K_SET)
                {
                    if(!g.has_bits || g.bits != rd(&f.bytes[abs], (int)m.size, sh.big))
                    {
                        c.fail("cursor-value", std::string(lv.name) + "." + m.name + " through " + vname + " = " + std::to_string(g.bits) + ", wire image holds " + std::to_string(rd(&f.bytes[abs], (int)m.size, sh.big)));
                        return res;
                    }
                }
                else if(!g.has_addr || g.addr_off != (long long)abs)
                {
                    c.fail("cursor-value", std::string(lv.name) + "." + m.name + " through " + vname + " is a view at " + std::to_string(g.addr_off) + ", wire position " + std::to_string(abs));
                    return res;
                }
            }
            else if(e.mkind == T_GROUP || e.mkind == T_DATA)
            {
                // the view handed out must sit where the wire image puts the member: walk the model tree
                const Node* node = &f.root;
                for(auto& st : e.path) node = &node->groups[(std::size_t)st.group].entries[(std::size_t)st.entry];
                const long long want = e.mkind == T_GROUP ? (long long)node->groups[(std::size_t)e.member].start : (long long)node->data_start[(std::size_t)e.member];
                if(!g.has_addr || g.addr_off != want)
                {
                    c.fail("cursor-value", std::string(lv.name) + "." + (e.mkind == T_GROUP ? lv.groups[(std::size_t)e.member].name : lv.data[(std::size_t)e.member].name) + " through " + vname + " is a view at " + std::to_string(g.addr_off) + ", the wire image puts it at " + std::to_string(want));
                    return res;
                }
            }
        }
        if(cm.complete && (rs.cursor_off != (long long)N || rs.size != N))
        {
            c.fail("cursor-end", "after " + vname + ": cursor " + std::to_string(rs.cursor_off) + ", size_bytes(m,c) " + std::to_string(rs.size) + ", wire size " + std::to_string(N));
            return res;
        }
    }
    if(res.violation) return res;
    // 4. visiting: structure against the model, values against the wire image
    {
        Req q;
        q.target = T_MESSAGE;
        q.sub = M_VISIT_FULL;
        q.stop_at = -1;
        if(!c.ra(q, rs, "visit")) return res;
        VisitModel vm{sh, f};
        vm.message();
        std::size_t gi = 0;
        for(std::size_t i = 0; i < vm.ev.size(); i++)
        {
            const ExpEvent& e = vm.ev[i];
            if(gi >= rs.events.size())
            {
                c.fail("visit-structure", "visit ended after " + std::to_string(rs.events.size()) + " events, model expects " + std::to_string(vm.ev.size()));
                return res;
            }
            const Event& g = rs.events[gi++];
            if(e.kind == EV_ENUM_VALUE || e.kind == EV_SET_CHOICE) continue; // value-dependent tags: C19's subject
            if(g.kind != e.kind || g.tag != e.tag)
            {
                c.fail("visit-structure", "visit event " + std::to_string(i + 1) + " is " + ev_name(g.kind) + ", model expects " + ev_name(e.kind));
                return res;
            }
            if(e.has_addr && g.addr_off != e.addr)
            {
                c.fail("visit-position", std::string(ev_name(e.kind)) + " delivered a view at " + std::to_string(g.addr_off) + ", the wire image puts it at " + std::to_string(e.addr));
                return res;
            }
        }
        if(rs.cursor_off != (long long)N)
        {
            c.fail("visit-end", "after the visit the cursor is at " + std::to_string(rs.cursor_off) + ", wire size " + std::to_string(N));
            return res;
        }
    }
    sim::stats().count("c03.frames");
    sim::stats().tuple(std::string(sh.name) + "|m" + std::to_string(fs.msg) + "|root+" + std::to_string(f.root.block.size() - sh.levels[(std::size_t)f.root.level].block_length));
    fp.add(N);
    fp.add(c.checks);
    res.fingerprint = fp.h;
    return res;
}

inline Plan gen_c03(u64 seed, const std::string& tier)
{
    (void)tier;
    sim::Rng root(seed);
    sim::Rng wl = root.fork("workload");
    Plan p;
    p.set("property", "C03");
    p.set("engine", "wire");
    if(sim::options().count("known")) p.set("known", sim::options()["known"]);
    const auto& ds = consumer_drivers();
    const Driver& d = ds[wl.below(ds.size())];
    const SchemaShape& sh = *d.shape;
    p.set("build", d.checked ? "checked" : "unchecked");
    p.set("schema", sh.name);
    p.seti("msg", (long long)wl.below(sh.messages.size()));
    p.seti("tree", (long long)(wl.next() >> 20));
    p.seti("extend", 1);
    p.seti("maxcount", (long long)wl.range(1, 4));
    p.set("mode", "seeded (schema, value tree, per-level block extension)");
    {
        // a fifth of the plans: the image comes from the real encoder of a later schema version
        sim::Rng pl = root.fork("producer");
        if(pl.chance(1, 5))
        {
            p.set("producer", "real-v2");
            p.seti("producer_cursor", (long long)pl.below(2));
            p.set("mode", "image produced by the real encoder generated from version 2 of the schema (fields appended to every block)");
        }
    }
    return p;
}
} // namespace wire
