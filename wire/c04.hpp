// C04: cursor access is equivalent to random access and tracks position;
// misuse is reported in checked builds. The cursor protocol model (DESIGN.md
// appendix C) mirrors the traversal order of driver_core's cursor_level and
// predicts, per call, legality and the cursor position afterwards. Values and
// view addresses are compared with the real random-access accessor.
#pragma once
#include "common.hpp"

namespace wire
{
struct ExpStep
{
    int level;
    int mkind;
    int member;
    std::vector<PathStep> path; // level instance the call is made on
    int wrapper;
    long long cursor_after;
    bool expect_handler = false;
    bool compare_value = false; // non-skip: compare with random access
    u64 inst_start = 0;
};

struct CursorModel
{
    const SchemaShape& sh;
    const Frame& f;
    const std::vector<Decision>& in; // raw decisions (from the plan)
    bool allow_misuse;
    std::vector<Decision> script;    // sanitised, what the driver gets
    std::vector<ExpStep> steps;
    std::size_t next_i = 0;
    long long cp = 0;
    bool stopped = false; // a misuse was injected: the walk ends there
    bool complete = true; // every member was visited with a moving wrapper (so the cursor must end at the message end)
    bool any_write = false;

    Decision raw()
    {
        Decision d;
        if(next_i < in.size()) d = in[next_i];
        next_i++;
        return d;
    }

    static bool checked_wrapper(int w)
    {
        return w == W_PLAIN || w == W_DONT_MOVE || w == W_SKIP;
    }

    // One member call. `required` < 0: no positional requirement (first variable-length member).
    // Returns false when the walk must stop (handler expected).
    bool call(int level, const std::vector<PathStep>& path, u64 inst_start, int mkind, int member, Decision& d, long long required, long long after_move, long long after_stay, long long after_init_stay, bool can_write, bool next_is_checkable_field)
    {
        (void)next_is_checkable_field;
        if(d.wrapper < W_PLAIN || d.wrapper > W_SKIP) d.wrapper = W_PLAIN;
        const bool checkable = required >= 0 && checked_wrapper(d.wrapper);
        if(d.displace != 0 && !(allow_misuse && checkable && cp == required)) d.displace = 0;
        if(!can_write || d.wrapper == W_SKIP) d.write = false;
        if(d.write) any_write = true;
        ExpStep st;
        st.level = level;
        st.mkind = mkind;
        st.member = member;
        st.path = path;
        st.inst_start = inst_start;
        st.wrapper = d.wrapper;
        st.compare_value = d.wrapper != W_SKIP;
        const long long before = cp + d.displace;
        if(checkable && before != required)
        {
            // only reachable through an injected displacement
            st.expect_handler = true;
            st.cursor_after = before;
            steps.push_back(st);
            script.push_back(d);
            stopped = true;
            return false;
        }
        switch(d.wrapper)
        {
        case W_PLAIN:
        case W_INIT:
        case W_SKIP: cp = after_move; break;
        case W_DONT_MOVE: cp = required >= 0 ? before : after_stay; break;
        case W_INIT_DONT_MOVE: cp = after_init_stay; break;
        }
        st.cursor_after = cp;
        steps.push_back(st);
        script.push_back(d);
        return true;
    }

    void level(const Node& n, const std::vector<PathStep>& path, bool is_msg)
    {
        const LevelShape& lv = sh.levels[(std::size_t)n.level];
        const long long b = is_msg ? 0 : (long long)n.start;
        const long long H = is_msg ? (long long)sh.msg_header.size : 0;
        const long long BL = (long long)n.block.size();
        const long long block_end = b + H + BL;
        long long prev_end = 0;
        for(std::size_t i = 0; i < lv.fields.size() && !stopped; i++)
        {
            const MemberShape& m = lv.fields[i];
            const bool last = i + 1 == lv.fields.size();
            const long long required = b + H + prev_end;
            const long long fend = (long long)(m.offset + m.size);
            const long long moved = last ? block_end : b + H + fend;
            bool moved_on = false;
            for(int rep = 0; rep < 4 && !stopped; rep++)
            {
                Decision d = raw();
                if(rep == 3 && !(d.wrapper == W_PLAIN || d.wrapper == W_INIT || d.wrapper == W_SKIP)) d.wrapper = W_PLAIN;
                if(d.wrapper == W_OMIT) d.wrapper = W_PLAIN; // out-of-order use is injected through displacement only
                const bool can_write = m.kind == K_SCALAR || m.kind == K_ENUM || m.kind == K_SET;
                if(can_write) d.value = rd(&f.bytes[(std::size_t)(b + H) + m.offset], (int)m.size, sh.big);
                if(!call(n.level, path, (u64)b, T_FIELD, (int)i, d, required, moved, required, required, can_write, false)) return;
                if(d.wrapper == W_PLAIN || d.wrapper == W_INIT || d.wrapper == W_SKIP)
                {
                    moved_on = true;
                    break;
                }
            }
            if(!moved_on) complete = false;
            prev_end = fend;
        }
        if(stopped) return;
        bool first_var = true;
        long long member_addr = block_end; // where the next variable-length member starts
        for(std::size_t gi = 0; gi < lv.groups.size() && !stopped; gi++)
        {
            const GroupInst& g = n.groups[gi];
            const GroupShape& gs = lv.groups[gi];
            const long long Hg = (long long)sh.dims[(std::size_t)gs.dim].size;
            const long long addr = (long long)g.start;
            const long long required = first_var ? -1 : addr;
            bool moved_on = false;
            for(int rep = 0; rep < 4 && !stopped; rep++)
            {
                Decision d = raw();
                if(rep == 3 && !(d.wrapper == W_PLAIN || d.wrapper == W_INIT || d.wrapper == W_SKIP)) d.wrapper = W_PLAIN;
                if(d.wrapper == W_OMIT) d.wrapper = W_PLAIN;
                const int w = d.wrapper;
                const long long after_move = w == W_SKIP ? (long long)g.end : addr + Hg;
                if(!call(n.level, path, (u64)b, T_GROUP, (int)gi, d, required, after_move, addr, addr, false, false)) return;
                if(d.wrapper == W_PLAIN || d.wrapper == W_INIT)
                {
                    // entries through cursor_range / cursor_subrange
                    const LevelShape& cl = sh.levels[(std::size_t)gs.level];
                    const bool memberless = cl.fields.empty() && cl.groups.empty() && cl.data.empty();
                    for(std::size_t ei = 0; ei < g.entries.size() && !stopped; ei++)
                    {
                        const Node& e = g.entries[ei];
                        ExpStep st;
                        st.level = gs.level;
                        st.mkind = T_LEVEL;
                        st.member = (int)gi;
                        st.path = path;
                        st.path.push_back({(int)gi, (u64)ei});
                        st.inst_start = e.start;
                        st.wrapper = W_PLAIN;
                        st.compare_value = true;
                        // dereferencing creates the entry at the cursor; a member-less entry advances by blockLength at once
                        if(memberless) cp += (long long)g.wire_bl;
                        st.cursor_after = cp;
                        steps.push_back(st);
                        if(!memberless) level(e, st.path, false);
                    }
                    moved_on = true;
                    break;
                }
                if(d.wrapper == W_SKIP)
                {
                    moved_on = true;
                    break;
                }
            }
            if(!moved_on) complete = false;
            first_var = false;
            member_addr = (long long)g.end;
        }
        for(std::size_t di = 0; di < lv.data.size() && !stopped; di++)
        {
            const long long addr = (long long)n.data_start[di];
            const long long end = addr + (long long)lv.data[di].len_width + (long long)n.data[di].size();
            const long long required = first_var ? -1 : addr;
            bool moved_on = false;
            for(int rep = 0; rep < 4 && !stopped; rep++)
            {
                Decision d = raw();
                if(rep == 3 && !(d.wrapper == W_PLAIN || d.wrapper == W_INIT || d.wrapper == W_SKIP)) d.wrapper = W_PLAIN;
                if(d.wrapper == W_OMIT) d.wrapper = W_PLAIN;
                if(!call(n.level, path, (u64)b, T_DATA, (int)di, d, required, end, addr, addr, false, false)) return;
                if(d.wrapper == W_PLAIN || d.wrapper == W_INIT || d.wrapper == W_SKIP)
                {
                    moved_on = true;
                    break;
                }
            }
            if(!moved_on) complete = false;
            first_var = false;
            member_addr = end;
        }
        (void)member_addr;
    }

    void run()
    {
        cp = (long long)sh.msg_header.size; // init_cursor: right after the header
        level(f.root, {}, true);
    }
};

inline std::vector<Decision> decisions_from_plan(const Plan& plan)
{
    std::vector<Decision> ds;
    for(const Op& op : plan.ops)
        if(op.name == "d")
        {
            Decision d;
            d.wrapper = (int)op.arg(0);
            d.displace = op.arg(1);
            d.split = (int)op.arg(2, -1);
            d.write = op.arg(3) != 0;
            ds.push_back(d);
        }
    return ds;
}

// Writer-side equivalence: the same value tree encoded by a producer that uses random-access setters and
// by one that uses the cursor idiom (plain cursor setters, `group(c)` + fill_group_header + cursor_range,
// data through dont_move + skip) must leave the same bytes in the slot, whatever the slot held before,
// and the cursor must end at the message end.
inline Result exec_c04_encode(const Plan& plan, FrameSpec& fs)
{
    Result res;
    fs.tp.extend = false;
    PlanBudget budget(20000);
    sim::Hasher fp;
    const Driver& drv = *fs.drv;
    const SchemaShape& sh = *drv.shape;
    Frame f = make_frame(fs);
    const std::set<std::string> known = known_set(plan);
    auto fail = [&](const std::string& cls0, const std::string& detail) {
        if(res.violation) return;
        std::string cls = cls0;
        if(cls == "end-position" && memberless_message_with_block(sh, f)) cls += ":memberless-message";
        if(is_known(res, known, "C04:" + cls)) return;
        res.violation = true;
        res.signature = "C04:" + cls;
        res.detail = detail + " [schema " + sh.name + " msg " + std::to_string(fs.msg) + " tree " + std::to_string(fs.tree_seed) + " encode-differential bg " + std::to_string(plan.geti("bg")) + (drv.checked ? " checked" : " unchecked") + "]";
    };
    const std::size_t size = f.bytes.size() + 48;
    const std::vector<u8> bg = slot_background(fs, size, (int)plan.geti("bg"), (u64)plan.geti("bgseed"));
    std::vector<u8> img[2];
    Outcome oc[2];
    Res rs[2];
    for(int mode = 0; mode < 2; mode++)
    {
        u8* p = sim::arena_place(size);
        std::memcpy(p, bg.data(), size);
        Req rq;
        rq.msg = fs.msg;
        rq.p = p;
        rq.n = size;
        rq.target = T_MESSAGE;
        rq.sub = M_ENCODE;
        rq.tree = &f.root;
        rq.arg = (u64)mode;
        oc[mode] = call_driver(drv, rq, rs[mode]);
        img[mode].assign(p, p + size);
        fp.add((u64)oc[mode].kind);
        fp.add(rs[mode].bits);
        fp.add(sim::fnv1a(img[mode].data(), size));
    }
    sim::stats().count("c04.encode_differentials");
    sim::stats().tuple(std::string("encode|") + sh.name + "|m" + std::to_string(fs.msg) + "|bg" + std::to_string(plan.geti("bg")));
    if(oc[0].kind != Out::DONE)
    {
        // the random-access producer itself did not finish: nothing to compare the cursor idiom with
        // (a spurious assertion on an in-bounds producer is C10's subject, where the same encoder runs)
        sim::stats().count(std::string("c04.encode_random_access_") + sim::out_name(oc[0].kind));
        res.fingerprint = fp.h;
        return res;
    }
    if(rs[1].unsupported)
    {
        sim::stats().count("c04.reduced_api_driver.skipped");
        res.fingerprint = fp.h;
        return res;
    }
    if(oc[1].kind != Out::DONE)
    {
        fail(oc[1].kind == Out::HANDLER ? "legal-call-asserted" : std::string("walk-") + sim::out_name(oc[1].kind), "the cursor-based producer ended with " + std::string(sim::out_name(oc[1].kind)) + (oc[1].kind == Out::HANDLER ? std::string(" `") + oc[1].expr + "` in " + oc[1].func : " at offset " + std::to_string(oc[1].off)) + " after " + std::to_string(rs[1].bits) + " writes; the random-access producer completed");
        return res;
    }
    if(img[0] != img[1])
    {
        std::size_t i = 0;
        while(i < size && img[0][i] == img[1][i]) i++;
        fail("encode-differs", "the slot written through cursor setters differs from the one written through random-access setters, first at offset " + std::to_string(i) + " (cursor " + std::to_string(img[1][i]) + ", random access " + std::to_string(img[0][i]) + ", before " + std::to_string(bg[i]) + ")");
        return res;
    }
    if(rs[1].cursor_off != (long long)rs[0].size)
    {
        fail("end-position", "after the cursor-based producer wrote every member the cursor is at " + std::to_string(rs[1].cursor_off) + ", size_bytes(m) is " + std::to_string(rs[0].size));
        return res;
    }
    if(rs[0].size == f.bytes.size()) sim::stats().count("c04.encode_size_equals_model");
    res.fingerprint = fp.h;
    return res;
}

inline Result exec_c04(const Plan& plan)
{
    Result res;
    FrameSpec fs;
    if(!frame_spec(plan, fs))
    {
        res.signature = "HARNESS:bad-frame-spec";
        return res;
    }
    if(plan.get("mode") == "encode-differential") return exec_c04_encode(plan, fs);
    PlanBudget budget(20000);
    sim::Hasher fp;
    const Driver& drv = *fs.drv;
    const SchemaShape& sh = *drv.shape;
    Frame f = make_frame(fs);
    const u64 N = f.bytes.size();
    const std::set<std::string> known = known_set(plan);
    auto fail = [&](const std::string& cls0, const std::string& detail) {
        if(res.violation) return;
        std::string cls = cls0;
        // a message with no members at all never moves the cursor past its (non-empty) block
        if(cls == "end-position" && memberless_message_with_block(sh, f)) cls += ":memberless-message";
        if(is_known(res, known, "C04:" + cls)) return;
        res.violation = true;
        res.signature = "C04:" + cls;
        res.detail = detail + " [schema " + sh.name + " msg " + std::to_string(fs.msg) + " tree " + std::to_string(fs.tree_seed) + (fs.tp.extend ? " extended" : "") + (drv.checked ? " checked" : " unchecked") + "]";
    };
    std::vector<Decision> raw = decisions_from_plan(plan);
    CursorModel cm{sh, f, raw, drv.checked};
    cm.run();
    // medium: the full frame (no transport fault in this property), guard page right behind it
    u8* p = sim::arena_place((std::size_t)N);
    std::memcpy(p, f.bytes.data(), (std::size_t)N);
    Req rq;
    rq.msg = fs.msg;
    rq.p = p;
    rq.n = (std::size_t)N;
    rq.target = T_MESSAGE;
    rq.sub = M_CURSOR_WALK;
    rq.script = &cm.script;
    const bool const_cursor = !cm.any_write && plan.geti("const_cursor") != 0;
    // by_tag: the same calls routed through sbepp::get_by_tag / set_by_tag(view, ..., cursor)
    rq.arg = (const_cursor ? 1 : 0) | ((cm.stopped || !cm.complete) ? 2 : 0) | (plan.geti("by_tag") ? 4 : 0) | (plan.geti("converted_cursor") ? 8 : 0) | (plan.geti("converted_cursor") == 2 ? 16 : 0);
    if(plan.geti("by_tag")) sim::stats().count("c04.walks_through_by_tag_accessors");
    Res rs;
    Outcome o = call_driver(drv, rq, rs);
    if(rs.unsupported)
    {
        // fallback build of this schema's driver (its full form does not compile): no walk, no verdict here
        sim::stats().count("c04.reduced_api_driver.skipped");
        res.fingerprint = 7;
        return res;
    }
    sim::stats().count("c04.walks");
    sim::stats().count("c04.calls", rs.csteps.size());
    fp.add((u64)o.kind);
    fp.add((u64)rs.csteps.size());
    for(auto& st : rs.csteps)
    {
        fp.add((u64)st.cursor_off);
        fp.add(st.bits);
        fp.add((u64)st.addr_off);
        fp.add((u64)st.wrapper);
    }
    if(std::memcmp(p, f.bytes.data(), (std::size_t)N) != 0)
    {
        fail("buffer-modified", "a cursor traversal (writes re-write the value read by random access) changed the buffer");
        return res;
    }
    const bool expect_handler = cm.stopped;
    if(expect_handler) sim::stats().count("fault.fired.cursor_misuse");
    auto step_name = [&](const ExpStep& e) {
        static const char* wn[] = {"plain", "init", "dont_move", "init_dont_move", "skip", "omit"};
        const LevelShape& lv = sh.levels[(std::size_t)e.level];
        std::string nm = e.mkind == T_FIELD ? lv.fields[(std::size_t)e.member].name : e.mkind == T_GROUP ? lv.groups[(std::size_t)e.member].name : e.mkind == T_DATA ? lv.data[(std::size_t)e.member].name : "entry";
        return std::string(lv.name) + "." + nm + "(" + wn[e.wrapper] + ")";
    };
    if(o.kind == Out::OOB || o.kind == Out::TIMEOUT)
    {
        fail(std::string("walk-") + sim::out_name(o.kind), "cursor traversal of a complete frame ended with " + std::string(sim::out_name(o.kind)) + " at offset " + std::to_string(o.off));
        return res;
    }
    if(expect_handler)
    {
        const ExpStep& last = cm.steps.back();
        sim::stats().tuple(std::string("misuse|") + sh.name + "|" + std::to_string(last.mkind) + "|w" + std::to_string(last.wrapper));
        if(o.kind != Out::HANDLER)
        {
            fail("misuse-not-reported", "`" + step_name(last) + "` was called with the cursor displaced by " + std::to_string(cm.script.back().displace) + " from the position it requires and returned silently (step " + std::to_string(cm.steps.size()) + ")");
            return res;
        }
        // "reported through the assertion handler": any assertion raised by exactly that call counts (the
        // wording of the message is not part of the property); an assertion at an earlier, legal call does not
        if(rs.csteps.size() != cm.steps.size())
        {
            fail("misuse-other-assert", "expected the misuse to be reported at step " + std::to_string(cm.steps.size()) + " `" + step_name(last) + "`, but `" + o.expr + "` fired after " + std::to_string(rs.csteps.size()) + " steps");
            return res;
        }
        if(std::string(o.expr).find("Wrong cursor value") != std::string::npos) sim::stats().count("probe.misuse_reported_as_wrong_cursor_value");
    }
    else if(o.kind == Out::HANDLER)
    {
        const std::size_t k = rs.csteps.size();
        fail("legal-call-asserted", "assertion `" + std::string(o.expr) + "` in " + o.func + " during a legal cursor call sequence, at step " + std::to_string(k) + (k && k <= cm.steps.size() ? " `" + step_name(cm.steps[k - 1]) + "`" : ""));
        return res;
    }
    // step-by-step: position and agreement with random access
    const std::size_t ncmp = std::min(rs.csteps.size(), cm.steps.size()) - (expect_handler ? 1 : 0);
    if(!expect_handler && rs.csteps.size() != cm.steps.size())
    {
        fail("step-count", "the traversal made " + std::to_string(rs.csteps.size()) + " calls, the model " + std::to_string(cm.steps.size()));
        return res;
    }
    Req ra;
    ra.msg = fs.msg;
    ra.p = p;
    ra.n = (std::size_t)N;
    Res rr;
    for(std::size_t i = 0; i < ncmp; i++)
    {
        const CursorStep& got = rs.csteps[i];
        const ExpStep& exp = cm.steps[i];
        sim::stats().tuple(std::string(sh.name) + "|k" + std::to_string(exp.mkind) + "|w" + std::to_string(exp.wrapper) + (fs.tp.extend ? "|ext" : ""));
        if(got.mkind != exp.mkind || got.member != exp.member || got.level != exp.level)
        {
            fail("harness-order", "driver and model disagree about the call order at step " + std::to_string(i));
            res.violation = false;
            res.signature = "HARNESS:c04-order";
            return res;
        }
        if(got.cursor_off != exp.cursor_after)
        {
            fail("position", "after `" + step_name(exp) + "` (step " + std::to_string(i + 1) + ") the cursor is at offset " + std::to_string(got.cursor_off) + ", documented position " + std::to_string(exp.cursor_after));
            return res;
        }
        if(exp.compare_value)
        {
            ra.path = exp.path;
            ra.member = exp.member;
            ra.cpath.clear();
            if(exp.mkind == T_LEVEL)
            {
                ra.target = T_LEVEL;
                ra.sub = G_ADDR;
            }
            else
            {
                ra.target = exp.mkind;
                ra.sub = exp.mkind == T_FIELD ? GET : exp.mkind == T_GROUP ? G_INFO : D_INFO;
            }
            Outcome o2 = call_driver(drv, ra, rr);
            if(o2.kind != Out::DONE)
            {
                fail("random-access-failed", "random access to `" + step_name(exp) + "` on a complete frame ended with " + sim::out_name(o2.kind) + (o2.kind == Out::HANDLER ? std::string(" `") + o2.expr + "`" : ""));
                return res;
            }
            const bool same = (got.has_bits && rr.has_bits && got.bits == rr.bits) || (got.has_addr && rr.has_addr && got.addr_off == rr.addr_off);
            if(!same)
            {
                fail("value", "`" + step_name(exp) + "` through the cursor gave " + (got.has_bits ? "value 0x" + std::to_string(got.bits) : "a view at offset " + std::to_string(got.addr_off)) + ", random access " + (rr.has_bits ? "value 0x" + std::to_string(rr.bits) : "a view at offset " + std::to_string(rr.addr_off)));
                return res;
            }
            // "a view of the same bytes": a group / data view obtained through the cursor must decode the
            // same count / length and expose the same payload as the one random access returns
            if(got.has_view && rr.has_view)
            {
                sim::stats().count("c04.view_contents_compared");
                if(got.vsize != rr.vsize || got.vhash != rr.vhash)
                {
                    fail("view", "`" + step_name(exp) + "` through the cursor is a view of " + std::to_string(got.vsize) + (exp.mkind == T_GROUP ? " entries" : " bytes") + ", the random-access one of " + std::to_string(rr.vsize) + (got.vsize == rr.vsize ? " (same length, different payload)" : ""));
                    return res;
                }
            }
        }
    }
    if(!expect_handler && cm.complete)
    {
        sim::stats().count("c04.complete_traversals");
        if(rs.cursor_off != (long long)N)
        {
            fail("end-position", "after a complete traversal the cursor is at " + std::to_string(rs.cursor_off) + ", message end is " + std::to_string(N));
            return res;
        }
        ra.path.clear();
        ra.target = T_LEVEL;
        ra.sub = L_SIZE_BYTES;
        call_driver(drv, ra, rr);
        if(!rs.valid || rs.size != rr.bits)
        {
            fail("size-bytes-cursor", "size_bytes(m, c) = " + std::to_string(rs.size) + " after a complete traversal, size_bytes(m) = " + std::to_string(rr.bits));
            return res;
        }
    }
    res.fingerprint = fp.h;
    return res;
}

inline Plan gen_c04(u64 seed, const std::string& tier)
{
    (void)tier;
    sim::Rng root(seed);
    sim::Rng wl = root.fork("workload"), fl = root.fork("faults");
    Plan p;
    p.set("property", "C04");
    p.set("engine", "wire");
    if(sim::options().count("known")) p.set("known", sim::options()["known"]);
    const auto& ds = consumer_drivers();
    const Driver& d = ds[wl.below(ds.size())];
    const SchemaShape& sh = *d.shape;
    p.set("build", d.checked ? "checked" : "unchecked");
    p.set("schema", sh.name);
    p.seti("msg", (long long)wl.below(sh.messages.size()));
    p.seti("tree", (long long)(wl.next() >> 20));
    if(root.fork("mode").chance(1, 6))
    {
        sim::Rng ml = root.fork("encode");
        p.set("mode", "encode-differential");
        p.seti("bg", (long long)ml.below(4));
        p.seti("bgseed", (long long)(ml.next() >> 20));
        return p;
    }
    if(wl.chance(1, 3)) p.seti("extend", 1);
    if(wl.chance(1, 3)) p.seti("const_cursor", 1);
    if(wl.chance(1, 4)) p.seti("by_tag", 1);
    if(wl.chance(1, 3)) p.seti("converted_cursor", root.fork("cursor-assign").chance(1, 2) ? 2 : 1); // const cursor obtained by conversion from a mutable one (constructor / assignment)
    // swarm: wrapper mix of this walk
    const unsigned w_plain = 2 + (unsigned)wl.below(6), w_other = (unsigned)wl.below(4);
    const bool misuse = d.checked && fl.chance(1, 3);
    const int nd = (int)wl.range(5, 120);
    const int misuse_at = misuse ? (int)fl.below((u64)nd) : -1;
    for(int i = 0; i < nd; i++)
    {
        Op o;
        o.name = "d";
        long long w = W_PLAIN;
        if(wl.below(w_plain + w_other) >= w_plain) w = (long long)wl.range(W_INIT, W_SKIP);
        long long displace = 0;
        if(i == misuse_at || (misuse && fl.chance(1, 40)))
        {
            static const long long ds2[] = {1, -1, 2, -2, 4, 8, -8, 17};
            displace = ds2[fl.below(8)];
        }
        o.a = {w, displace, wl.chance(1, 3) ? (long long)wl.below(4) : (wl.chance(1, 4) ? -2 : -1), wl.chance(1, 6) ? 1 : 0};
        p.ops.push_back(o);
    }
    return p;
}
} // namespace wire
