// Engine `wire`: untrusted frames against the views sbeppc generates.
// One binary per build flavour (checked / unchecked); all corpus drivers are
// linked in and register themselves.
#include "c06.hpp"
#include "c10.hpp"
#include "c03.hpp"
#include "c13.hpp"

namespace sbepp
{
[[noreturn]] void assertion_failed(char const* expr, char const* function, char const* /*file*/, long line)
{
    sim::report_handler(expr, function, line);
}
} // namespace sbepp

namespace wire
{
void runaway()
{
    sim::report_handler("HARNESS-CAP: traversal of a finite frame produced more than 300000 records (runaway loop in the code under test)", "runaway", 0);
}

std::vector<Driver>& drivers()
{
    static std::vector<Driver> d;
    return d;
}

const std::vector<Driver>& consumer_drivers()
{
    // built on first use, i.e. after main() sorted the registry
    static const std::vector<Driver> c = [] {
        std::vector<Driver> v;
        for(auto& d : drivers())
            if(!d.producer_only) v.push_back(d);
        return v;
    }();
    return c;
}
} // namespace wire

namespace
{
sim::Plan gen_plan(std::uint64_t seed, const std::string& prop, const std::string& tier)
{
    if(prop == "C06") return wire::gen_c06(seed, tier);
    if(prop == "C10") return wire::gen_c10_wire(seed, tier);
    if(prop == "C04") return wire::gen_c04(seed, tier);
    if(prop == "C19") return wire::gen_c19(seed, tier);
    if(prop == "C03") return wire::gen_c03(seed, tier);
    if(prop == "C13") return wire::gen_c13_wire(seed, tier);
    return sim::Plan{};
}

sim::Result exec_plan(const sim::Plan& plan)
{
    sim::arena_init();
    sim::arena_reset();
    const std::string prop = plan.get("property");
    if(prop == "C06") return wire::exec_c06(plan);
    if(prop == "C10") return wire::exec_c10(plan);
    if(prop == "C04") return wire::exec_c04(plan);
    if(prop == "C19") return wire::exec_c19(plan);
    if(prop == "C03") return wire::exec_c03(plan);
    if(prop == "C13") return wire::exec_c13_wire(plan);
    sim::Result r;
    r.signature = "HARNESS:unknown-property";
    return r;
}

sim::Plan refine(const sim::Plan& p, const sim::Result& r)
{
    if(p.get("property") == "C06") return wire::refine_c06(p, r);
    if(p.get("property") == "C10") return wire::refine_c10(p, r);
    if(p.get("property") == "C19") return wire::refine_c19(p, r);
    return p;
}

std::vector<sim::Op> shrink_op(const sim::Plan&, const sim::Op& o)
{
    std::vector<sim::Op> out;
    for(std::size_t i = 0; i < o.a.size(); i++)
        if(o.a[i] != 0)
        {
            sim::Op c = o;
            c.a[i] = o.a[i] / 2;
            out.push_back(c);
            c.a[i] = o.a[i] - 1;
            out.push_back(c);
        }
    return out;
}
} // namespace

int main(int argc, char** argv)
{
    sim::fix_address_space(argv);
    // deterministic driver order regardless of link order
    std::sort(wire::drivers().begin(), wire::drivers().end(), [](const wire::Driver& a, const wire::Driver& b) { return std::string(a.shape->name) < b.shape->name; });
    if(argc >= 2 && std::string(argv[1]) == "info")
    {
        for(auto& d : wire::drivers()) printf("DRIVER %s messages=%zu levels=%zu checked=%d producer_only=%d\n", d.shape->name, d.shape->messages.size(), d.shape->levels.size(), d.checked ? 1 : 0, d.producer_only ? 1 : 0);
        return 0;
    }
    if(argc >= 3 && std::string(argv[1]) == "dump")
    {
        // human-readable view of the frame a plan describes
        sim::Plan p = sim::Plan::load(argv[2]);
        wire::FrameSpec fs;
        if(!wire::frame_spec(p, fs)) return 2;
        wire::Frame f = wire::make_frame(fs);
        printf("frame %zu bytes: %s\n", f.bytes.size(), sim::hex(f.bytes).c_str());
        auto sf = wire::struct_fields(*fs.drv->shape, f);
        static const char* what[] = {"msg.blockLength", "group.blockLength", "numInGroup", "data.length"};
        for(std::size_t i = 0; i < sf.size(); i++)
            printf("  struct[%zu] %s at %llu width %d value %llu\n", i, what[sf[i].what], (unsigned long long)sf[i].pos, sf[i].width, (unsigned long long)wire::rd(&f.bytes[sf[i].pos], sf[i].width, fs.drv->shape->big));
        return 0;
    }
    sim::Engine e;
    e.gen = gen_plan;
    e.exec = exec_plan;
    e.shrink_op = shrink_op;
    e.refine = refine;
    return sim::worker_main(argc, argv, e);
}
