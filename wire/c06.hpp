// C06: size_bytes_checked on untrusted buffers.
// Every evaluation runs the real function three times on the same n bytes:
// hard placement (guard page right after byte n-1) and two soft placements
// (n bytes followed by readable slack holding two different poisons), and
// compares with the bounded reference walker.
#pragma once
#include "common.hpp"

namespace wire
{
struct C06
{
    const Driver* drv;
    const SchemaShape* sh;
    int msg;
    int group_view = -1; // >= 0: size_bytes_checked on that group view ...
    std::vector<PathStep> group_path; // ... of the entry reached through this path (empty: a top-level group)
    const GroupShape* group_shape = nullptr;
    std::set<std::string> known;
    Result* res;
    sim::Hasher* fp;
    std::string where; // context for reports
    u64 evals = 0;
    long long ctx_set_i = -1; // inside sweep_set: which field / value is in force
    u64 ctx_set_v = 0;

    struct Obs
    {
        Outcome o;
        bool valid;
        u64 size;
    };

    Obs call(const std::vector<u8>& bytes, u64 n, std::size_t slack, u8 poison)
    {
        u8* p = sim::arena_place((std::size_t)n, slack);
        if(n) std::memcpy(p, bytes.data(), (std::size_t)n);
        if(slack) std::memset(p + n, poison, slack);
        Req rq;
        rq.msg = msg;
        rq.p = p;
        rq.n = (std::size_t)n;
        if(drv->checked)
        {
            // Checked builds assert when the *view's own bound* is too small (that is C10's
            // subject). As in the repo's own tests, bind the view to the whole readable extent
            // and pass n as the size argument, so that any handler invocation is about n.
            rq.n = (std::size_t)n + slack;
            rq.size_arg = (long long)n;
        }
        if(group_view >= 0)
        {
            rq.target = T_GROUP_AT_P;
            rq.member = group_view;
            rq.path = group_path;
        }
        else
        {
            rq.target = T_MESSAGE;
            rq.sub = M_SBC;
        }
        Res rs;
        Obs ob;
        // "work bounded by a function of n": one call on at most a few hundred KiB gets 300 ms of CPU (it needs microseconds)
        ob.o = call_driver(*drv, rq, rs, 300);
        ob.valid = rs.valid;
        ob.size = rs.size;
        return ob;
    }

    // returns false if a (new) violation was recorded
    bool report(const std::string& cls, const std::string& detail, u64 n)
    {
        const std::string sig = "C06:" + cls;
        if(known.count(sig))
        {
            if(std::find(res->known.begin(), res->known.end(), sig) == res->known.end()) res->known.push_back(sig);
            sim::stats().count("known." + sig);
            return true;
        }
        if(!res->violation)
        {
            res->violation = true;
            res->signature = sig;
            res->detail = detail + " [" + where + ", n=" + std::to_string(n) + "]" + (ctx_set_i >= 0 ? " set=" + std::to_string(ctx_set_i) + ":" + std::to_string((long long)ctx_set_v) : "") + " k=" + std::to_string(n);
        }
        return false;
    }

    bool eval(const std::vector<u8>& bytes, u64 n)
    {
        evals++;
        sim::stats().count("c06.evaluations");
        Walk w = group_view >= 0 ? walk_group(*sh, *group_shape, bytes.data(), n) : walk_message(*sh, msg, bytes.data(), n);
        if(w.aborted)
        {
            sim::stats().count("c06.skipped_unbounded_model_walk");
            return true;
        }
        // (checked build: no guard-page run, see call(); over-reads show as poison dependence only)
        Obs sa = call(bytes, n, 64, 0x00);
        Obs hard = drv->checked ? sa : call(bytes, n, 0, 0);
        Obs sb = call(bytes, n, 64, 0xFF);
        fp->add((u64)hard.o.kind);
        fp->add((u64)sa.valid);
        fp->add(sa.size);
        sim::stats().tuple(std::string(sh->name) + "|m" + std::to_string(msg) + (group_view >= 0 ? "|g" : "|m") + "|unmet=" + std::to_string((int)w.unmet) + "|" + sim::out_name(hard.o.kind) + "|" + (sa.valid ? "V" : "I"));
        bool ok = true;
        for(const Obs* ob : {&hard, &sa, &sb})
        {
            if(ob->o.kind == Out::TIMEOUT) return report("timeout", "size_bytes_checked did not return within the CPU budget", n);
            if(ob->o.kind == Out::HANDLER)
            {
                // the known short-block over-read (field accessors evaluated although the wire block is shorter than the
                // compiled one) shows as an assertion of a *field* accessor when the compiled block reaches beyond the
                // view's own bound (n + 64 in this flavour): same root cause, same structural predicate
                const std::string fn = ob->o.func;
                if(!w.short_blocks.empty() && (fn == "get_value" || fn == "get_last_value" || fn == "get_static_field_view" || fn == "get_last_static_field_view"))
                {
                    sim::stats().count("probe.overread.overread:short-block(as field-accessor assertion)");
                    return report("overread:short-block", std::string("a field accessor asserted inside size_bytes_checked: `") + ob->o.expr + "` in " + fn, n);
                }
                return report("handler", std::string("size_bytes_checked ended in the assertion handler: `") + ob->o.expr + "` in " + ob->o.func, n);
            }
        }
        if(hard.o.kind == Out::OOB)
        {
            // classify the over-read with the model's view of the buffer
            const long long off = hard.o.off;
            std::string cls = "overread:other";
            if(w.unmet == Walk::DATA_PREFIX && off >= (long long)n && (u64)off < w.unmet_pos + (u64)w.unmet_width)
                cls = "overread:data-prefix";
            else
            {
                for(auto& sbk : w.short_blocks)
                    if((u64)off >= sbk.start && (u64)off < sbk.start + sbk.extent) cls = "overread:short-block";
            }
            sim::stats().count("probe.overread." + cls);
            ok = report(cls, "read at offset " + std::to_string(off) + " >= n (guard page hit)", n) && ok;
        }
        // verdict, from the soft placements (observable even where the hard run faulted)
        if(sa.o.kind == Out::OOB || sb.o.kind == Out::OOB)
        {
            const long long off = sa.o.kind == Out::OOB ? sa.o.off : sb.o.off;
            // a compiled block longer than 64 bytes read although the wire block is shorter: the known short-block case
            for(auto& sbk : w.short_blocks)
                if(off >= 0 && (u64)off >= sbk.start && (u64)off < sbk.start + sbk.extent) return report("overread:short-block", "read at offset " + std::to_string(off) + " >= n + 64 inside the compiled extent of a level whose wire block is shorter", n) && ok;
            return report("overread:far", "read beyond n + 64 at offset " + std::to_string(off), n) && ok;
        }
        if(sa.valid != sb.valid || (sa.valid && sa.size != sb.size))
            return report("poison-dependent", "result depends on bytes at offsets >= n: " + std::to_string(sa.valid) + "/" + std::to_string(sa.size) + " vs " + std::to_string(sb.valid) + "/" + std::to_string(sb.size), n) && ok;
        if(sa.valid != w.valid)
            return report(w.valid ? "verdict:false-negative" : "verdict:false-positive", std::string("valid=") + (sa.valid ? "true" : "false") + " size=" + std::to_string(sa.size) + " but the structure the buffer describes " + (w.valid ? "fits (size " + std::to_string(w.size) + ")" : "does not fit (first unmet item kind " + std::to_string((int)w.unmet) + " at " + std::to_string(w.unmet_pos) + ")"), n) && ok;
        if(w.valid && sa.size != w.size) return report("size", "size=" + std::to_string(sa.size) + " but the exact size is " + std::to_string(w.size), n) && ok;
        if(hard.o.kind == Out::DONE && (hard.valid != sa.valid || (sa.valid && hard.size != sa.size))) return report("placement-dependent", "hard and soft placements disagree", n) && ok;
        return ok;
    }
};

inline Result exec_c06(const Plan& plan)
{
    Result res;
    FrameSpec fs;
    if(!frame_spec(plan, fs))
    {
        res.signature = "HARNESS:bad-frame-spec";
        return res;
    }
    PlanBudget budget(plan.geti("budget_ms", 60000));
    sim::Hasher fp;
    const SchemaShape& sh = *fs.drv->shape;
    Frame f = make_frame(fs);
    C06 c{fs.drv, &sh, fs.msg};
    c.res = &res;
    c.fp = &fp;
    c.known = known_set(plan);
    c.group_view = (int)plan.geti("group_view", -1);
    c.where = std::string("schema ") + sh.name + " msg " + std::to_string(fs.msg) + " tree " + std::to_string(fs.tree_seed) + (c.group_view >= 0 ? " group-view " + std::to_string(c.group_view) : "");
    std::vector<u8> base = f.bytes;
    std::vector<StructField> sf = struct_fields(sh, f);
    if(c.group_view >= 0)
    {
        // gpath "g:e,g:e": entries to descend through before picking group `group_view`; entries that the
        // frame does not have fall back to the top-level group
        const Node* node = &f.root;
        {
            std::istringstream gp(plan.get("gpath"));
            std::string t;
            while(std::getline(gp, t, ','))
            {
                const auto colon = t.find(':');
                if(colon == std::string::npos) continue;
                const std::size_t gi = (std::size_t)std::strtoul(t.c_str(), nullptr, 10), ei = (std::size_t)std::strtoul(t.c_str() + colon + 1, nullptr, 10);
                if(gi >= node->groups.size() || ei >= node->groups[gi].entries.size()) break;
                c.group_path.push_back({(int)gi, (u64)ei});
                node = &node->groups[gi].entries[ei];
            }
        }
        const LevelShape& lv = sh.levels[(std::size_t)node->level];
        if(c.group_view >= (int)lv.groups.size())
        {
            // no such group below that entry: use the message view instead
            c.group_view = -1;
            c.group_path.clear();
        }
        else
        {
            c.group_shape = &lv.groups[(std::size_t)c.group_view];
            const GroupInst& g = node->groups[(std::size_t)c.group_view];
            // rebase: the group image alone
            base.assign(f.bytes.begin() + (long)g.start, f.bytes.begin() + (long)g.end);
            std::vector<StructField> sf2;
            for(auto& s : sf)
                if(s.pos >= g.start && s.pos < g.end)
                {
                    StructField t = s;
                    t.pos -= g.start;
                    sf2.push_back(t);
                }
            sf = sf2;
            if(!c.group_path.empty()) sim::stats().count("probe.c06.nested_group_view_plans");
        }
    }
    std::vector<u8> bytes = base;
    u64 n = bytes.size();
    bool any_sweep = false;
    for(const Op& op : plan.ops)
    {
        if(res.violation) break;
        if(op.name == "sweep_trunc")
        {
            any_sweep = true;
            for(u64 k = 0; k <= bytes.size() && !res.violation; k++) c.eval(bytes, k);
            sim::stats().count("fault.fired.truncate", bytes.size() + 1);
        }
        else if(op.name == "sweep_set")
        {
            any_sweep = true;
            // every structural field x value catalogue x every truncation point
            const bool all_k = bytes.size() <= 160 || op.arg(0) != 0;
            for(std::size_t i = 0; i < sf.size() && !res.violation; i++)
            {
                const StructField& s = sf[i];
                const u64 cur = rd(&bytes[s.pos], s.width, sh.big);
                for(u64 v : hostile_values(s.width, cur, s.compiled))
                {
                    if(res.violation) break;
                    std::vector<u8> b2 = bytes;
                    wr(&b2[s.pos], s.width, sh.big, v);
                    c.ctx_set_i = (long long)i;
                    c.ctx_set_v = v;
                    sim::stats().count("fault.fired.set_structural");
                    if(all_k)
                    {
                        for(u64 k = 0; k <= b2.size() && !res.violation; k++) c.eval(b2, k);
                    }
                    else
                    {
                        // full length, the field's own boundaries, and a stride
                        c.eval(b2, b2.size());
                        for(u64 k : {s.pos, s.pos + 1, s.pos + (u64)s.width, s.pos + (u64)s.width + 1})
                            if(k <= b2.size() && !res.violation) c.eval(b2, k);
                        for(u64 k = 0; k <= b2.size() && !res.violation; k += 7) c.eval(b2, k);
                    }
                }
            }
        }
        else if(op.name == "torn")
        {
            // F5: the consumer looks at a slot while (or after) a producer died half-way: the slot holds what
            // was there before (another frame of the same message, zeros, ones, noise) overwritten by the
            // first j writes of a real producer (random-access setters or the cursor idiom) encoding this
            // frame's value tree. j = 0 means "every step" (a complete encode over stale content).
            if(c.group_view >= 0) continue;
            const std::size_t size = f.bytes.size() + 32;
            std::vector<u8> bg = slot_background(fs, size, (int)(op.uarg(1) % 4), op.uarg(2));
            u8* p = sim::arena_place(size);
            std::memcpy(p, bg.data(), size);
            Req rq;
            rq.msg = fs.msg;
            rq.p = p;
            rq.n = size;
            rq.target = T_MESSAGE;
            rq.sub = M_ENCODE;
            rq.tree = &f.root;
            rq.arg = op.uarg(3) & 1;
            rq.arg2 = op.uarg(0);
            Res rs;
            Outcome o = call_driver(*fs.drv, rq, rs);
            sim::stats().count(std::string("fault.applied.torn_encode.") + sim::out_name(o.kind));
            if(o.kind != Out::DONE || rs.unsupported) continue; // the producer itself failed: not this property's subject (C10 runs the same producers)
            sim::stats().count(rs.valid ? "probe.c06.torn.complete_encodes_over_stale_content" : "probe.c06.torn.partial_encodes");
            bytes.assign(p, p + size);
            n = bytes.size();
            sf.clear(); // positions of the model frame no longer describe these bytes
        }
        else if(op.name == "eval")
        {
            c.ctx_set_i = -1;
            c.eval(bytes, n);
        }
        else
            apply_byte_fault(op, sh, f, sf, bytes, n, fs);
    }
    if(!any_sweep && !res.violation && (plan.ops.empty() || plan.ops.back().name != "eval")) c.eval(bytes, n);
    res.fingerprint = fp.h;
    return res;
}

inline Plan gen_c06(u64 seed, const std::string& tier)
{
    (void)tier;
    sim::Rng root(seed);
    sim::Rng wl = root.fork("workload"), fl = root.fork("faults");
    Plan p;
    p.set("property", "C06");
    p.set("engine", "wire");
    if(sim::options().count("known")) p.set("known", sim::options()["known"]);
    const auto& ds = consumer_drivers();
    const Driver& d = ds[wl.below(ds.size())];
    const SchemaShape& sh = *d.shape;
    p.set("schema", sh.name);
    const int msg = (int)wl.below(sh.messages.size());
    p.seti("msg", msg);
    p.seti("tree", (long long)(wl.next() >> 20));
    const LevelShape& lv = sh.levels[(std::size_t)sh.messages[(std::size_t)msg]];
    if(!lv.groups.empty() && wl.chance(1, 3))
    {
        p.seti("group_view", (long long)wl.below(3));
        // half of the group views are nested ones: a group of an entry of a group ...
        if(wl.chance(1, 2)) p.set("gpath", std::to_string(wl.below(lv.groups.size())) + ":" + std::to_string(wl.below(2)) + (wl.chance(1, 3) ? "," + std::to_string(wl.below(2)) + ":0" : ""));
    }
    const int mode = (int)fl.below(10);
    if(p.geti("group_view", -1) < 0 && root.fork("torn").chance(1, 6))
    {
        sim::Rng tl = root.fork("torn-args");
        p.set("mode", "torn-encode-x-truncations");
        Op o;
        o.name = "torn";
        // j: mostly small (the tear is early), sometimes 0 = complete encode over stale content
        const long long j = tl.chance(1, 6) ? 0 : (long long)tl.range(1, tl.chance(1, 2) ? 8 : 60);
        o.a = {j, (long long)tl.below(4), (long long)(tl.next() >> 20), (long long)tl.below(2)};
        p.ops.push_back(o);
        Op t;
        t.name = "sweep_trunc";
        p.ops.push_back(t);
        return p;
    }
    auto add = [&](const std::string& name, std::vector<long long> a) {
        Op o;
        o.name = name;
        o.a = a;
        p.ops.push_back(o);
    };
    if(mode <= 2)
    {
        p.set("mode", "enumerate-truncations");
        add("sweep_trunc", {});
    }
    else if(mode <= 5)
    {
        p.set("mode", "enumerate-structural-values-x-truncations");
        add("sweep_set", {0});
    }
    else
    {
        p.set("mode", "explore-multi-fault");
        if(fl.chance(1, 3))
        {
            p.seti("extend", 1);
            p.seti("maxboundary", 300); // every truncation point is evaluated: keep frames small
        }
        const int nf = (int)fl.range(1, 3);
        for(int i = 0; i < nf; i++)
        {
            switch(fl.below(4))
            {
            case 0:
            {
                // hostile structural value: any field, any 64-bit pattern or a boundary
                u64 v;
                switch(fl.below(4))
                {
                case 0: v = fl.next(); break;
                case 1: v = ~0ULL - fl.below(3); break;
                case 2: v = fl.below(600); break;
                default: v = (1ULL << fl.below(64)) - fl.below(2); break;
                }
                add("set", {(long long)fl.below(64), (long long)v});
                break;
            }
            case 1: add("flip", {(long long)fl.below(4096), (long long)(1u << fl.below(8))}); break;
            case 2: add("stale", {(long long)fl.below(4096), (long long)(fl.next() >> 20)}); break;
            default: break;
            }
        }
        // the combination is then examined at every truncation point
        add("sweep_trunc", {});
    }
    return p;
}

inline Plan refine_c06(const Plan& p, const Result& r)
{
    // "... k=<n>" at the end of the detail names the failing truncation point
    auto pos = r.detail.rfind(" k=");
    if(pos == std::string::npos) return p;
    const long long k = std::strtoll(r.detail.c_str() + pos + 3, nullptr, 10);
    Plan q;
    q.head = p.head;
    long long si = -1, sv = 0;
    auto sp = r.detail.rfind(" set=");
    if(sp != std::string::npos)
    {
        si = std::strtoll(r.detail.c_str() + sp + 5, nullptr, 10);
        auto colon = r.detail.find(':', sp);
        if(colon != std::string::npos) sv = std::strtoll(r.detail.c_str() + colon + 1, nullptr, 10);
    }
    for(auto& o : p.ops)
    {
        if(o.name == "sweep_trunc")
        {
            Op t;
            t.name = "trunc";
            t.a = {k};
            q.ops.push_back(t);
        }
        else if(o.name == "sweep_set")
        {
            if(si >= 0)
            {
                Op s;
                s.name = "set";
                s.a = {si, sv};
                q.ops.push_back(s);
            }
            Op t;
            t.name = "trunc";
            t.a = {k};
            q.ops.push_back(t);
        }
        else
            q.ops.push_back(o);
    }
    return q;
}
} // namespace wire
