// C13 through the generated accessors: the <data> members of the corpus schemas, with the length
// type, byte order and byte type sbeppc chose for them, obtained by the named accessor, by tag and
// through cursor wrappers, are driven through a seeded history of dynamic-array operations and
// compared with std::vector after every operation: length prefix (read from the buffer in the
// *schema's* byte order and width, as the independent layout model has it), payload, returned
// iterators, and no byte outside the prefix and the payload area in use modified.
// (The dynarr engine covers dynamic_array_ref instantiated by hand; this half covers what the schema
// compiler instantiates and how the generated accessors hand it out.)
#pragma once
#include "common.hpp"

namespace wire
{
struct DataInst
{
    std::vector<PathStep> path;
    int level;
    int di;
    u64 start; // offset of the length prefix
    std::size_t len;
    const Node* node;
};

inline void collect_data(const SchemaShape& sh, const Node& n, std::vector<PathStep> path, std::vector<DataInst>& out)
{
    const LevelShape& lv = sh.levels[(std::size_t)n.level];
    for(std::size_t di = 0; di < lv.data.size(); di++) out.push_back({path, n.level, (int)di, n.data_start[di], n.data[di].size(), &n});
    for(std::size_t gi = 0; gi < lv.groups.size(); gi++)
        for(std::size_t ei = 0; ei < n.groups[gi].entries.size() && ei < 3; ei++)
        {
            auto p2 = path;
            p2.push_back({(int)gi, (u64)ei});
            collect_data(sh, n.groups[gi].entries[ei], p2, out);
        }
}

// std::vector under the same operation; returns false if the op is not valid for a vector of this size
// within the capacity (the generator keeps ops valid; the minimiser may not). `ih` accumulates returned
// iterator positions exactly like the driver does. `di_from/di_to`: elements created by default_init.
inline bool model_data_op(std::vector<u8>& m, const DataOp& o, u64 cap, u64& ih, long long& di_from, long long& di_to)
{
    di_from = di_to = -1;
    auto note = [&](u64 idx) { ih = ih * 1000003ULL + idx + 1; };
    const u64 sz = m.size();
    switch(o.kind)
    {
    case DO_PUSH_BACK:
        if(sz + 1 > cap) return false;
        m.push_back(o.v);
        return true;
    case DO_POP_BACK:
        if(!sz) return false;
        m.pop_back();
        return true;
    case DO_INSERT1:
        if(o.a > sz || sz + 1 > cap) return false;
        m.insert(m.begin() + (long)o.a, o.v);
        note(o.a);
        return true;
    case DO_INSERTN:
        if(o.a > sz || sz + o.b > cap) return false;
        m.insert(m.begin() + (long)o.a, (std::size_t)o.b, o.v);
        note(o.a);
        return true;
    case DO_INSERT_RANGE:
    {
        if(o.a > sz || o.b > 64 || sz + o.b > cap) return false;
        std::vector<u8> src;
        for(u64 i = 0; i < o.b; i++) src.push_back((u8)(o.v + i));
        m.insert(m.begin() + (long)o.a, src.begin(), src.end());
        note(o.a);
        return true;
    }
    case DO_INSERT_IL:
        if(o.a > sz || sz + 3 > cap) return false;
        m.insert(m.begin() + (long)o.a, {o.v, (u8)(o.v + 1), (u8)(o.v + 2)});
        note(o.a);
        return true;
    case DO_ERASE1:
        if(o.a >= sz) return false;
        m.erase(m.begin() + (long)o.a);
        note(o.a);
        return true;
    case DO_ERASE2:
        if(o.a + o.b > sz) return false;
        m.erase(m.begin() + (long)o.a, m.begin() + (long)(o.a + o.b));
        note(o.a);
        return true;
    case DO_RESIZE:
        if(o.a > cap) return false;
        m.resize((std::size_t)o.a);
        return true;
    case DO_RESIZE_V:
        if(o.a > cap) return false;
        m.resize((std::size_t)o.a, o.v);
        return true;
    case DO_RESIZE_DI:
        if(o.a > cap) return false;
        if(o.a > sz)
        {
            di_from = (long long)sz;
            di_to = (long long)o.a;
        }
        m.resize((std::size_t)o.a);
        return true;
    case DO_ASSIGN_N:
        if(o.a > cap) return false;
        m.assign((std::size_t)o.a, o.v);
        return true;
    case DO_ASSIGN_RANGE:
    case DO_ASSIGN_RANGE2:
        if(o.a > cap || o.a > 64) return false;
        m.clear();
        for(u64 i = 0; i < o.a; i++) m.push_back((u8)(o.v + i));
        return true;
    case DO_ASSIGN_IL:
        if(2 > cap) return false;
        m = {o.v, (u8)(o.v + 1)};
        return true;
    case DO_ASSIGN_STRING:
        if(o.a > cap || o.a > 64) return false;
        m.assign((std::size_t)o.a, (u8)('a' + (o.v % 26)));
        return true;
    case DO_CLEAR: m.clear(); return true;
    default: return false;
    }
}

inline const char* data_op_name(int k)
{
    static const char* n[] = {"push_back", "pop_back", "insert(pos,v)", "insert(pos,n,v)", "insert(pos,first,last)", "insert(pos,il)", "erase(pos)", "erase(first,last)", "resize(n)", "resize(n,v)", "resize(n,default_init)", "assign(n,v)", "assign(first,last)", "assign(il)", "assign_string", "assign_range", "clear"};
    return k >= 0 && k < DO_KINDS ? n[k] : "?";
}

inline Result exec_c13_wire(const Plan& plan)
{
    Result res;
    FrameSpec fs;
    if(!frame_spec(plan, fs))
    {
        res.signature = "HARNESS:bad-frame-spec";
        return res;
    }
    fs.tp.extend = false;
    PlanBudget budget(20000);
    sim::Hasher fp;
    const Driver& drv = *fs.drv;
    const SchemaShape& sh = *drv.shape;
    Frame f = make_frame(fs);
    std::vector<DataInst> all;
    collect_data(sh, f.root, {}, all);
    if(all.empty())
    {
        sim::stats().count("c13w.frames_without_data_members");
        res.fingerprint = 1;
        return res;
    }
    const DataInst& di = all[(std::size_t)((u64)plan.geti("dsel") % all.size())];
    const DataShape& ds = sh.levels[(std::size_t)di.level].data[(std::size_t)di.di];
    const int W = ds.len_width;
    const int route = (int)(plan.geti("route") % 5);
    static const char* route_name[] = {"named accessor", "get_by_tag", "accessor(cursor_ops::init(c))", "accessor(cursor_ops::init_dont_move(c))", "get_by_tag(view, cursor_ops::init(c))"};
    const std::size_t slack = 300;
    const std::size_t total = f.bytes.size() + slack;
    const u64 room = total - (di.start + (u64)W);
    const u64 cap = std::min<u64>({room, width_mask(W) - 1, 250});
    std::vector<u8> init(total);
    std::memcpy(init.data(), f.bytes.data(), f.bytes.size());
    {
        sim::Rng r(fs.tree_seed ^ 0x5151);
        for(std::size_t i = f.bytes.size(); i < total; i++) init[i] = (u8)(0x80 | r.below(128));
    }
    std::vector<DataOp> ops;
    for(const Op& op : plan.ops)
        if(op.name == "do")
        {
            DataOp o;
            o.kind = (int)(op.uarg(0) % DO_KINDS);
            o.a = op.uarg(1);
            o.b = op.uarg(2);
            o.v = (u8)op.uarg(3);
            ops.push_back(o);
        }
    auto fail = [&](const std::string& cls, const std::string& detail, std::size_t at) {
        if(res.violation) return;
        res.violation = true;
        res.signature = "C13:" + cls + ":" + (at < ops.size() ? data_op_name(ops[at].kind) : "initial");
        res.detail = detail + " [generated <data> member `" + ds.name + "` (length: " + std::to_string(W) + " bytes, " + (sh.big ? "big" : "little") + " endian) of schema " + sh.name + " msg " + std::to_string(fs.msg) + " tree " + std::to_string(fs.tree_seed) + ", obtained through " + route_name[route] + (drv.checked ? ", checked" : ", unchecked") + "; after op " + std::to_string(at + 1) + " of " + std::to_string(ops.size()) + "]";
    };
    // model, with the ops that are valid for a vector of the current size (invalid ones are dropped: the
    // minimiser may have removed what made them valid)
    std::vector<u8> model(f.bytes.begin() + (long)(di.start + (u64)W), f.bytes.begin() + (long)(di.start + (u64)W + di.len));
    std::vector<DataOp> valid;
    u64 ih = 0;
    u64 high = model.size(); // payload area in use so far
    Req rq;
    rq.msg = fs.msg;
    rq.target = T_DATA;
    rq.sub = D_HISTORY;
    rq.member = di.di;
    rq.path = di.path;
    rq.arg = (u64)route;
    sim::stats().tuple(std::string("c13w|") + sh.name + "|w" + std::to_string(W) + "|route" + std::to_string(route));
    for(std::size_t k = 0; k <= ops.size() && !res.violation; k++)
    {
        long long dfrom = -1, dto = -1;
        if(k > 0)
        {
            std::vector<u8> m2 = model;
            u64 ih2 = ih;
            if(!model_data_op(m2, ops[k - 1], cap, ih2, dfrom, dto))
            {
                sim::stats().count("c13w.op.skipped");
                continue;
            }
            model = m2;
            ih = ih2;
            valid.push_back(ops[k - 1]);
            high = std::max<u64>(high, model.size());
            sim::stats().count(std::string("c13w.op.") + data_op_name(ops[k - 1].kind));
            sim::stats().tuple(std::string("c13w|") + sh.name + "|w" + std::to_string(W) + "|" + data_op_name(ops[k - 1].kind) + "|" + (model.empty() ? "empty" : "nonempty"));
        }
        // the history so far on a fresh copy of the medium (guard page right behind the slack)
        u8* p = sim::arena_place(total);
        std::memcpy(p, init.data(), total);
        rq.p = p;
        rq.n = total;
        rq.dops = &valid;
        Res rs;
        Outcome o = call_driver(drv, rq, rs);
        sim::stats().count("c13w.histories");
        fp.add((u64)o.kind);
        const std::size_t at = k ? k - 1 : 0;
        if(rs.unsupported)
        {
            sim::stats().count("c13w.route_unsupported");
            if(rs.api_gap) break;
            break;
        }
        if(o.kind != Out::DONE)
        {
            fail(o.kind == Out::HANDLER ? "handler" : std::string("outcome-") + sim::out_name(o.kind), std::string("a history that is valid for std::vector ended with ") + sim::out_name(o.kind) + (o.kind == Out::HANDLER ? std::string(" `") + o.expr + "` in " + o.func : ""), at);
            break;
        }
        if(rs.addr_off != (long long)di.start)
        {
            fail("address", "the view handed out lies at offset " + std::to_string(rs.addr_off) + ", the member's length prefix is at " + std::to_string(di.start), at);
            break;
        }
        const u64 prefix = rd(p + di.start, W, sh.big);
        fp.add(prefix);
        if(prefix != model.size())
        {
            fail("size", "length prefix in the buffer (read in the schema's byte order) is " + std::to_string(prefix) + ", the vector has " + std::to_string(model.size()) + " elements (the view itself reports " + std::to_string(rs.vsize) + ")", at);
            break;
        }
        if(rs.vsize != model.size())
        {
            fail("size", "size() reports " + std::to_string(rs.vsize) + ", the vector has " + std::to_string(model.size()) + " elements", at);
            break;
        }
        const u8* pay = p + di.start + (u64)W;
        if(dfrom >= 0)
            for(long long i = dfrom; i < dto; i++) model[(std::size_t)i] = pay[i]; // default_init: unspecified, adopted
        for(std::size_t i = 0; i < model.size(); i++)
            if(pay[i] != model[i])
            {
                fail("payload", "payload[" + std::to_string(i) + "]=" + std::to_string(pay[i]) + " != vector[" + std::to_string(i) + "]=" + std::to_string(model[i]), at);
                break;
            }
        if(res.violation) break;
        if(rs.bits != ih)
        {
            fail("iterator", "the iterators returned by insert/erase so far do not designate the positions the vector's do", at);
            break;
        }
        // nothing outside the prefix and the payload area in use may change
        for(std::size_t i = 0; i < total; i++)
        {
            if(i >= di.start && i < di.start + (u64)W + high) continue;
            if(p[i] != init[i])
            {
                fail("outside-write", "byte at offset " + std::to_string(i) + " (outside the length prefix at " + std::to_string(di.start) + " and the " + std::to_string(high) + "-byte payload area in use) changed from " + std::to_string(init[i]) + " to " + std::to_string(p[i]), at);
                break;
            }
        }
        fp.add(sim::fnv1a(pay, model.size()));
    }
    res.fingerprint = fp.h;
    return res;
}

inline Plan gen_c13_wire(u64 seed, const std::string& tier)
{
    (void)tier;
    sim::Rng root(seed);
    sim::Rng wl = root.fork("workload"), hl = root.fork("history");
    Plan p;
    p.set("property", "C13");
    p.set("engine", "wire");
    const auto& ds = consumer_drivers();
    const Driver& d = ds[wl.below(ds.size())];
    const SchemaShape& sh = *d.shape;
    p.set("build", d.checked ? "checked" : "unchecked");
    p.set("schema", sh.name);
    // prefer messages that have data members somewhere
    int msg = (int)wl.below(sh.messages.size());
    for(int tries = 0; tries < 8; tries++)
    {
        std::function<bool(int)> has = [&](int lvl) {
            const LevelShape& lv = sh.levels[(std::size_t)lvl];
            if(!lv.data.empty()) return true;
            for(auto& g : lv.groups)
                if(has(g.level)) return true;
            return false;
        };
        if(has(sh.messages[(std::size_t)msg])) break;
        msg = (int)wl.below(sh.messages.size());
    }
    p.seti("msg", msg);
    p.seti("tree", (long long)(wl.next() >> 20));
    p.seti("dsel", (long long)wl.below(64));
    p.seti("route", (long long)wl.below(5));
    // the exact initial contents of the selected member, so that every argument is valid for the vector
    std::vector<u8> model;
    u64 cap = 250;
    {
        FrameSpec fs;
        if(frame_spec(p, fs))
        {
            fs.tp.extend = false;
            Frame f = make_frame(fs);
            std::vector<DataInst> all;
            collect_data(sh, f.root, {}, all);
            if(!all.empty())
            {
                const DataInst& di = all[(std::size_t)((u64)p.geti("dsel") % all.size())];
                const int W = sh.levels[(std::size_t)di.level].data[(std::size_t)di.di].len_width;
                model.assign(f.bytes.begin() + (long)(di.start + (u64)W), f.bytes.begin() + (long)(di.start + (u64)W + di.len));
                cap = std::min<u64>({f.bytes.size() + 300 - (di.start + (u64)W), width_mask(W) - 1, 250});
            }
        }
    }
    const int n = (int)hl.range(1, 14);
    // swarm: a subset of op kinds per history
    std::vector<int> kinds;
    for(int k = 0; k < DO_KINDS; k++)
        if(hl.chance(1, 2)) kinds.push_back(k);
    if(kinds.empty()) kinds.push_back((int)hl.below(DO_KINDS));
    for(int i = 0; i < n; i++)
    {
        const u64 sz = model.size();
        Op o;
        o.name = "do";
        const int k = kinds[hl.below(kinds.size())];
        u64 a = 0, b = 0;
        switch(k)
        {
        case DO_INSERT1:
        case DO_INSERT_IL: a = hl.chance(1, 4) ? (hl.chance(1, 2) ? 0 : sz) : hl.below(sz + 1); break;
        case DO_INSERTN:
        case DO_INSERT_RANGE:
            a = hl.chance(1, 4) ? (hl.chance(1, 2) ? 0 : sz) : hl.below(sz + 1);
            b = hl.below(6);
            break;
        case DO_ERASE1: a = sz ? hl.below(sz) : 0; break;
        case DO_ERASE2:
            a = hl.below(sz + 1);
            b = hl.chance(1, 3) ? sz - a : hl.below(sz - a + 1); // often up to end()
            break;
        case DO_RESIZE:
        case DO_RESIZE_V:
        case DO_RESIZE_DI:
        case DO_ASSIGN_N:
        case DO_ASSIGN_RANGE:
        case DO_ASSIGN_STRING:
        case DO_ASSIGN_RANGE2: a = hl.chance(1, 8) ? 0 : hl.below(std::min<u64>(cap, 48) + 1); break;
        default: break;
        }
        DataOp dop;
        dop.kind = k;
        dop.a = a;
        dop.b = b;
        dop.v = (u8)hl.below(256);
        u64 ih = 0;
        long long x, y;
        if(!model_data_op(model, dop, cap, ih, x, y)) continue; // not valid for a vector of this size: not offered
        o.a = {(long long)k, (long long)a, (long long)b, (long long)dop.v};
        p.ops.push_back(o);
    }
    return p;
}
} // namespace wire
