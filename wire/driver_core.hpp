// Hand-written generic half of every generated driver. The generated TU only
// binds names (member accessors, tags, levels); everything that *does*
// something with them lives here, once.
#pragma once
#include <sbepp/sbepp.hpp>

#include "driver_api.hpp"
#include "model.hpp"

#include <cstring>
#include <type_traits>

#ifndef WIRE_BYTE
#    define WIRE_BYTE char
#endif

namespace wire
{
template<int K>
struct kind_c
{
    static constexpr int value = K;
};
template<class T>
struct type_c
{
    using type = T;
};
template<bool B>
struct bool_c
{
    static constexpr bool value = B;
};

// A traversal of a frame of at most 1 MiB cannot legitimately produce more records than this;
// beyond it the code under test is running away (reported through the handler seam so that the
// run ends as an ordinary outcome instead of eating memory).
constexpr std::size_t kMaxRecords = 300000;
[[noreturn]] void runaway(); // defined by the engine (wire/main.cpp)

struct Ctx
{
    const Req* rq;
    Res* rs;
    u8* p;
    bool by_tag = false; // cursor walks: go through sbepp::get_by_tag / set_by_tag instead of the named accessors
    template<class T>
    long long off(T* ptr) const
    {
        return reinterpret_cast<const u8*>(ptr) - p;
    }
};

template<class T>
u64 to_bits(T u)
{
    static_assert(sizeof(T) <= 8, "value too wide");
    u64 b = 0;
    std::memcpy(&b, &u, sizeof(T));
    return b;
}

template<class T>
T from_bits(u64 b)
{
    T u;
    std::memcpy(&u, &b, sizeof(T));
    return u;
}

template<class V>
u64 value_bits(kind_c<K_SCALAR>, V v)
{
    return to_bits(v.value());
}
template<class V>
u64 value_bits(kind_c<K_ENUM>, V v)
{
    return to_bits(sbepp::to_underlying(v));
}
template<class V>
u64 value_bits(kind_c<K_SET>, V v)
{
    return to_bits(*v);
}

template<class V>
V make_value(kind_c<K_SCALAR>, u64 bits)
{
    return V{from_bits<typename V::value_type>(bits)};
}
template<class V>
V make_value(kind_c<K_ENUM>, u64 bits)
{
    return static_cast<V>(from_bits<typename std::underlying_type<V>::type>(bits));
}
template<class V>
V make_value(kind_c<K_SET>, u64 bits)
{
    using U = typename std::remove_cv<typename std::remove_reference<decltype(*std::declval<V&>())>::type>::type;
    return V{from_bits<U>(bits)};
}

template<class T, class = void>
struct is_view_like : std::false_type
{
};
template<class T>
struct is_view_like<T, decltype(void(sbepp::addressof(std::declval<T&>())))> : std::true_type
{
};

// true for views / array refs over a const byte type: mutating ops do not exist for them

// Iterator arithmetic takes the iterator's signed difference_type (int8_t for an 8-bit numInGroup): a
// distance above its maximum is not a value the call can be given. The driver moves in steps that fit.
template<class It>
It advanced(It it, std::ptrdiff_t d)
{
    using D = typename It::difference_type;
    const std::ptrdiff_t lim = static_cast<std::ptrdiff_t>(std::numeric_limits<D>::max());
    while(d > lim)
    {
        it += static_cast<D>(lim);
        d -= lim;
    }
    while(d < -lim)
    {
        it -= static_cast<D>(lim);
        d += lim;
    }
    it += static_cast<D>(d);
    return it;
}
template<class It>
bool fits_difference(std::ptrdiff_t d)
{
    using D = typename It::difference_type;
    return d <= static_cast<std::ptrdiff_t>(std::numeric_limits<D>::max()) && d >= static_cast<std::ptrdiff_t>(std::numeric_limits<D>::min());
}

template<class V>
constexpr bool is_ro()
{
    return std::is_const<sbepp::byte_type_t<V>>::value;
}

// generic bits of anything a visitor or accessor can hand out
template<class T>
void describe(const Ctx& cx, T v, bool& has_bits, u64& bits, bool& has_addr, long long& addr_off, u64& size)
{
    if constexpr(std::is_same<T, bool>::value)
    {
        has_bits = true;
        bits = v ? 1 : 0;
    }
    else if constexpr(sbepp::is_enum<T>::value)
    {
        has_bits = true;
        bits = to_bits(sbepp::to_underlying(v));
    }
    else if constexpr(sbepp::is_set<T>::value)
    {
        has_bits = true;
        bits = to_bits(*v);
    }
    else if constexpr(sbepp::is_non_array_type<T>::value)
    {
        has_bits = true;
        bits = to_bits(v.value());
    }
    else if constexpr(std::is_arithmetic<T>::value)
    {
        // not a view and not an sbepp value type (e.g. a raw constant): still describable
        has_bits = true;
        bits = to_bits(v);
    }
    else if constexpr(std::is_convertible<T, const char*>::value)
    {
        const char* s = v;
        has_bits = true;
        bits = s ? sim::fnv1a(s, std::strlen(s)) : 0;
    }
    else if constexpr(is_view_like<T>::value)
    {
        has_addr = true;
        addr_off = cx.off(sbepp::addressof(v));
        (void)size;
    }
    else
    {
        // something the visit API is not documented to deliver: recorded without payload
        (void)cx;
        (void)v;
    }
}

// -------------------------------------------------------------- array ops
template<class A>
void array_op(Ctx& cx, A a)
{
    const Req& rq = *cx.rq;
    Res& rs = *cx.rs;
    using V = typename A::value_type;
    switch(rq.sub)
    {
    case GET:
    case A_DATA:
        rs.has_addr = true;
        rs.addr_off = cx.off(a.data());
        rs.size = a.size();
        break;
    case A_SIZE:
        rs.has_bits = true;
        rs.bits = a.size();
        break;
    case A_INDEX:
        rs.has_bits = true;
        rs.bits = to_bits(a[(std::size_t)rq.arg]);
        break;
    case A_FRONT:
        rs.has_bits = true;
        rs.bits = to_bits(a.front());
        break;
    case A_BACK:
        rs.has_bits = true;
        rs.bits = to_bits(a.back());
        break;
    case A_STRLEN:
        if constexpr(std::is_same<V, char>::value)
        {
            rs.has_bits = true;
            rs.bits = a.strlen();
        }
        else
            rs.unsupported = true;
        break;
    case A_STRLEN_R:
        if constexpr(std::is_same<V, char>::value)
        {
            rs.has_bits = true;
            rs.bits = a.strlen_r();
        }
        else
            rs.unsupported = true;
        break;
    case A_FILL:
        if constexpr(!is_ro<A>())
            a.fill(static_cast<V>(rq.arg));
        else
            rs.unsupported = true;
        break;
    case A_ASSIGN_STRING:
    if constexpr(!std::is_same<V, char>::value || is_ro<A>())
        rs.unsupported = true;
    else
    {
        char buf[64];
        std::size_t len = (std::size_t)rq.arg < sizeof(buf) - 1 ? (std::size_t)rq.arg : sizeof(buf) - 1;
        std::memset(buf, 'x', len);
        buf[len] = 0;
        const char* cstr = buf; // a char array would select the range overload
        a.assign_string(cstr);
        break;
    }
    case A_ITER:
    {
        u64 sum = 0;
        for(auto it = a.begin(); it != a.end(); ++it) sum = sum * 131 + (u8)*it;
        rs.has_bits = true;
        rs.bits = sum;
        break;
    }
    case A_RAW_ITER:
    {
        auto r = a.raw();
        u64 sum = 0;
        for(std::size_t i = 0; i < r.size(); i++) sum = sum * 131 + (u8)r[i];
        rs.has_bits = true;
        rs.bits = sum;
        rs.has_addr = true;
        rs.addr_off = cx.off(r.data());
        break;
    }
    case A_RAW_WRITE:
        if constexpr(!is_ro<A>())
        {
            auto r = a.raw();
            if(r.size())
            {
                auto last = r[r.size() - 1];
                r[r.size() - 1] = last;
            }
        }
        else
            rs.unsupported = true;
        break;
    case A_REVERSE:
    {
        u64 sum = 0;
        for(auto it = a.rbegin(); it != a.rend(); ++it) sum = sum * 131 + (u8)*it;
        rs.has_bits = true;
        rs.bits = sum;
        break;
    }
    case A_ASSIGN_N:
        if constexpr(!is_ro<A>())
            a.assign(a.size(), static_cast<V>(rq.arg));
        else
            rs.unsupported = true;
        break;
    case A_ASSIGN_RANGE:
        if constexpr(!is_ro<A>())
        {
            std::vector<V> src(a.size(), static_cast<V>(rq.arg));
            a.assign_range(src);
        }
        else
            rs.unsupported = true;
        break;
    case A_ASSIGN_STRING_MODE:
    case A_ASSIGN_STRING_RANGE:
    if constexpr(!std::is_same<V, char>::value || is_ro<A>())
        rs.unsupported = true;
    else
    {
        const sbepp::eos_null mode = rq.arg2 == 0 ? sbepp::eos_null::all : rq.arg2 == 1 ? sbepp::eos_null::single : sbepp::eos_null::none;
        const std::size_t len = (std::size_t)(rq.arg < a.size() ? rq.arg : a.size());
        std::string text(len, 'q');
        if(rq.sub == A_ASSIGN_STRING_MODE)
        {
            const char* cstr = text.c_str();
            auto it = a.assign_string(cstr, mode);
            rs.has_bits = true;
            rs.bits = (u64)(it - a.begin());
        }
        else
        {
            auto it = a.assign_string(text, mode);
            rs.has_bits = true;
            rs.bits = (u64)(it - a.begin());
        }
        break;
    }
    case A_ASSIGN_ITER:
        if constexpr(!is_ro<A>())
        {
            const std::size_t len = (std::size_t)(rq.arg < a.size() ? rq.arg : a.size());
            std::vector<V> src(len, static_cast<V>(0x51));
            auto it = a.assign(src.begin(), src.end());
            rs.has_bits = true;
            rs.bits = (u64)(it - a.begin());
        }
        else
            rs.unsupported = true;
        break;
    case A_ASSIGN_IL:
        if constexpr(!is_ro<A>())
        {
            if(a.size() >= 2)
            {
                auto it = a.assign({static_cast<V>(0x52), static_cast<V>(0x53)});
                rs.has_bits = true;
                rs.bits = (u64)(it - a.begin());
            }
            else
                rs.unsupported = true;
        }
        else
            rs.unsupported = true;
        break;
    case A_PARTIAL_FILL:
        if constexpr(!is_ro<A>())
        {
            using size_type = typename A::size_type;
            const std::size_t len = (std::size_t)(rq.arg < a.size() ? rq.arg : a.size());
            auto it = a.assign((size_type)len, static_cast<V>(0x54));
            rs.has_bits = true;
            rs.bits = (u64)(it - a.begin());
        }
        else
            rs.unsupported = true;
        break;
    default: rs.unsupported = true;
    }
}

// -------------------------------------------------------------- field ops
template<class View, class K, class Comp, class Acc, class Tag>
void field_op(Ctx& cx, View v, K k, Comp, Acc acc, Tag, std::size_t cdepth)
{
    const Req& rq = *cx.rq;
    Res& rs = *cx.rs;
    using TagT = typename Tag::type;
    if constexpr(K::value == K_COMPOSITE)
    {
        if(cdepth == rq.cpath.size())
        {
            if(rq.sub == GET_BY_TAG)
            {
                auto cv = sbepp::get_by_tag<TagT>(v);
                rs.has_addr = true;
                rs.addr_off = cx.off(sbepp::addressof(cv));
                rs.size = sbepp::size_bytes(cv);
            }
            else if(rq.sub == GET)
            {
                auto cv = acc(v);
                rs.has_addr = true;
                rs.addr_off = cx.off(sbepp::addressof(cv));
                rs.size = sbepp::size_bytes(cv);
            }
            else
                rs.unsupported = true;
            return;
        }
        auto cv = acc(v);
        using C = typename Comp::type;
        C::member(rq.cpath[cdepth], [&](auto k2, auto comp2, auto acc2, auto tag2) { field_op(cx, cv, k2, comp2, acc2, tag2, cdepth + 1); });
    }
    else if constexpr(K::value == K_ARRAY)
    {
        if(rq.sub == GET_BY_TAG)
        {
            auto a = sbepp::get_by_tag<TagT>(v);
            rs.has_addr = true;
            rs.addr_off = cx.off(a.data());
            rs.size = a.size();
        }
        else
            array_op(cx, acc(v));
    }
    else
    {
        using T = decltype(acc(v));
        switch(rq.sub)
        {
        case SET_CHOICES:
            if constexpr(K::value == K_SET)
            {
                // per choice four records: named getter, get_by_tag, raw value after toggling through the
                // named setter, raw value after toggling through set_by_tag (each on a fresh copy of the set)
                using SetT = typename Comp::type;
                auto s = acc(v);
                const auto raw = *s;
                SetT::each(s, [&](int bit, auto named_get, auto, auto ctag) {
                    using CTag = typename decltype(ctag)::type;
                    auto push = [&](u64 bits) {
                        Event ev;
                        ev.kind = EV_SET_CHOICE;
                        ev.tag = bit;
                        ev.has_bits = true;
                        ev.bits = bits;
                        cx.rs->events.push_back(ev);
                    };
                    push(named_get() ? 1 : 0);
                    push(sbepp::get_by_tag<CTag>(s) ? 1 : 0);
                });
                SetT::each(s, [&](int bit, auto, auto, auto ctag) {
                    using CTag = typename decltype(ctag)::type;
                    (void)bit;
                    auto t1 = acc(v);
                    SetT::each(t1, [&](int b2, auto g2, auto set2, auto) {
                        if(b2 == bit) set2(!g2());
                    });
                    auto t2 = acc(v);
                    sbepp::set_by_tag<CTag>(t2, !sbepp::get_by_tag<CTag>(t2));
                    Event ev;
                    ev.kind = EV_SET_CHOICE;
                    ev.tag = bit;
                    ev.has_bits = true;
                    ev.bits = to_bits(*t1);
                    cx.rs->events.push_back(ev);
                    ev.bits = to_bits(*t2);
                    cx.rs->events.push_back(ev);
                });
                rs.has_bits = true;
                rs.bits = to_bits(raw);
            }
            else
                rs.unsupported = true;
            break;
        case GET:
            rs.has_bits = true;
            rs.bits = value_bits(k, acc(v));
            break;
        case SET:
            if constexpr(!is_ro<View>())
                acc(v, make_value<T>(k, rq.arg));
            else
                rs.unsupported = true;
            break;
        case GET_BY_TAG:
            rs.has_bits = true;
            rs.bits = value_bits(k, sbepp::get_by_tag<TagT>(v));
            break;
        case SET_BY_TAG:
            if constexpr(!is_ro<View>())
                sbepp::set_by_tag<TagT>(v, make_value<T>(k, rq.arg));
            else
                rs.unsupported = true;
            break;
        default: rs.unsupported = true;
        }
    }
}

// -------------------------------------------------------------- group ops
template<class G>
void record_entry(Ctx& cx, const G& e)
{
    Event ev;
    ev.kind = EV_ENTRY;
    ev.tag = -1;
    ev.has_addr = true;
    ev.addr_off = cx.off(sbepp::addressof(e));
    if(cx.rs->events.size() >= kMaxRecords) runaway();
    cx.rs->events.push_back(ev);
}

template<class G, class Flat>
void group_op(Ctx& cx, G g, Flat)
{
    const Req& rq = *cx.rq;
    Res& rs = *cx.rs;
    using size_type = typename G::size_type;
    switch(rq.sub)
    {
    case G_ADDR:
        rs.has_addr = true;
        rs.addr_off = cx.off(sbepp::addressof(g));
        break;
    case G_INFO:
        rs.has_addr = true;
        rs.addr_off = cx.off(sbepp::addressof(g));
        rs.has_view = true;
        rs.vsize = (u64)g.size();
        break;
    case G_SIZE:
        rs.has_bits = true;
        rs.bits = (u64)g.size();
        break;
    case G_EMPTY:
        rs.has_bits = true;
        rs.bits = g.empty();
        break;
    case G_HEADER:
    {
        auto h = sbepp::get_header(g);
        rs.has_addr = true;
        rs.addr_off = cx.off(sbepp::addressof(h));
        rs.size = sbepp::size_bytes(h);
        break;
    }
    case G_SIZE_BYTES:
        rs.has_bits = true;
        rs.bits = sbepp::size_bytes(g);
        break;
    case G_HEADER_FIELDS:
    {
        auto h = sbepp::get_header(g);
        auto bl = h.blockLength();
        auto num = h.numInGroup();
        if constexpr(!is_ro<G>())
        {
            h.blockLength(bl);
            h.numInGroup(num);
        }
        rs.has_bits = true;
        rs.bits = to_bits(bl.value()) * 1000003ULL + to_bits(num.value());
        break;
    }
    case G_ITER:
    {
        // alternate ++it / it++, and look at each entry through operator* and through operator->
        int k = 0;
        for(auto it = g.begin(); it != g.end(); k++)
        {
            record_entry(cx, *it);
            auto proxy = it.operator->();
            const auto* ep = proxy.operator->();
            if(cx.off(sbepp::addressof(*ep)) != cx.rs->events.back().addr_off) cx.rs->events.back().addr_off = -7777777; // operator-> disagrees with operator*
            if(k % 2)
                it++;
            else
                ++it;
        }
        break;
    }
    case G_RESIZE_THEN_LAST:
        if constexpr(!is_ro<G>())
        {
            const size_type n0 = g.size();
            if(n0 < G::max_size())
            {
                g.resize((size_type)(n0 + 1));
                // the walk to the new last entry is the driver's own loop: with a hostile numInGroup it
                // must not become the thing that is measured (flat groups jump, nested ones walk a bounded way)
                if constexpr(Flat::value)
                    record_entry(cx, *advanced(g.begin(), static_cast<std::ptrdiff_t>(n0)));
                else if(n0 <= 4096)
                {
                    size_type i = 0;
                    for(auto it = g.begin(); it != g.end(); ++it, ++i)
                        if(i == n0) record_entry(cx, *it);
                }
            }
        }
        else
            rs.unsupported = true;
        break;
    case G_ITER_INDEXED:
        if constexpr(Flat::value)
        {
            const auto n = g.size();
            auto b = g.begin();
            for(size_type i = 0; i < n; i++)
            {
                using It = decltype(b);
                if(fits_difference<It>(static_cast<std::ptrdiff_t>(i)))
                {
                    record_entry(cx, *(b + static_cast<typename It::difference_type>(i)));
                    record_entry(cx, b[static_cast<typename It::difference_type>(i)]);
                }
                else
                {
                    record_entry(cx, *advanced(b, static_cast<std::ptrdiff_t>(i)));
                    record_entry(cx, advanced(b, static_cast<std::ptrdiff_t>(i) - 1)[1]);
                }
                auto e = g.end();
                e = advanced(e, -static_cast<std::ptrdiff_t>(i + 1));
                record_entry(cx, *e);
            }
        }
        else
            rs.unsupported = true;
        break;
    case G_ITER_FORMS:
        if constexpr(Flat::value)
        {
            // the remaining forms of random-access iterator use: n + it, it - n, it++, it--, --it, the relational
            // operators and it2 - it1. Operands are kept at 1 (positions are reached with advanced()), so every
            // call is one the difference_type can express whatever the entry count
            const std::ptrdiff_t n = static_cast<std::ptrdiff_t>(g.size());
            const auto b = g.begin();
            using It = typename std::remove_cv<decltype(b)>::type;
            using D = typename It::difference_type;
            rs.bits = 0;
            for(std::ptrdiff_t i = 0; i < n; i++)
            {
                const It at = advanced(b, i);
                const It next = advanced(b, i + 1); // may be end()
                record_entry(cx, i == 0 ? *(static_cast<D>(0) + b) : *(static_cast<D>(1) + advanced(b, i - 1)));
                record_entry(cx, *(next - static_cast<D>(1)));
                {
                    It t = at;
                    It old = t++;
                    record_entry(cx, *old);
                    if(!(t == next)) rs.bits++;
                }
                {
                    It t = next;
                    It old = t--;
                    record_entry(cx, *t);
                    if(!(old == next)) rs.bits++;
                }
                {
                    It t = next;
                    --t;
                    record_entry(cx, *t);
                    if(t != at) rs.bits++;
                }
                const std::ptrdiff_t j = n - 1 - i;
                const It other = advanced(b, j);
                if((at < other) != (i < j)) rs.bits++;
                if((at <= other) != (i <= j)) rs.bits++;
                if((at > other) != (i > j)) rs.bits++;
                if((at >= other) != (i >= j)) rs.bits++;
                if((at == other) != (i == j)) rs.bits++;
                if((at != other) != (i != j)) rs.bits++;
                if(fits_difference<It>(j - i) && static_cast<std::ptrdiff_t>(other - at) != j - i) rs.bits++;
            }
        }
        else
            rs.unsupported = true;
        break;
    case G_INDEX:
        if constexpr(Flat::value)
        {
            auto e = g[(size_type)rq.arg];
            rs.has_addr = true;
            rs.addr_off = cx.off(sbepp::addressof(e));
        }
        else
            rs.unsupported = true;
        break;
    case G_FRONT:
    {
        auto e = g.front();
        rs.has_addr = true;
        rs.addr_off = cx.off(sbepp::addressof(e));
        break;
    }
    case G_BACK:
        if constexpr(Flat::value)
        {
            auto e = g.back();
            rs.has_addr = true;
            rs.addr_off = cx.off(sbepp::addressof(e));
        }
        else
            rs.unsupported = true;
        break;
    case G_RESIZE:
        if constexpr(!is_ro<G>())
            g.resize((size_type)rq.arg);
        else
            rs.unsupported = true;
        break;
    case G_CLEAR:
        if constexpr(!is_ro<G>())
            g.clear();
        else
            rs.unsupported = true;
        break;
    case G_FILL_HEADER:
        if constexpr(!is_ro<G>())
        {
            auto h = sbepp::fill_group_header(g, (size_type)rq.arg);
            rs.has_addr = true;
            rs.addr_off = cx.off(sbepp::addressof(h));
        }
        else
            rs.unsupported = true;
        break;
    default: rs.unsupported = true;
    }
}

// --------------------------------------------------------------- data ops
template<class D>
u64 data_hash(D d)
{
    u64 h = 1469598103934665603ULL;
    for(auto it = d.begin(); it != d.end(); ++it) h = (h ^ (u8)*it) * 1099511628211ULL;
    return h;
}

// single-pass source for insert(pos, first, last) / assign(first, last)
struct CountingInputIt
{
    using iterator_category = std::input_iterator_tag;
    using value_type = unsigned char;
    using difference_type = std::ptrdiff_t;
    using pointer = const unsigned char*;
    using reference = unsigned char;
    u64 i;
    u8 base;
    unsigned char operator*() const { return (unsigned char)(base + i); }
    CountingInputIt& operator++() { ++i; return *this; }
    CountingInputIt operator++(int) { auto t = *this; ++i; return t; }
    bool operator==(const CountingInputIt& o) const { return i == o.i; }
    bool operator!=(const CountingInputIt& o) const { return i != o.i; }
};

// A scripted history on a generated <data> member (C13 through the accessors sbeppc emits: the
// length type, byte order and byte type are whatever the schema compiler chose for this member).
// The checker keeps every argument valid for a std::vector of the model's size; after the script
// the checker reads prefix and payload straight from the buffer. Returned iterators are reported
// as one rolling hash of their offsets from begin().
template<class D>
void data_history(Ctx& cx, D d)
{
    const Req& rq = *cx.rq;
    Res& rs = *cx.rs;
    using size_type = typename D::size_type;
    using V = typename D::value_type;
    if(!rq.dops) return;
    u64 ih = 0;
    auto note = [&](typename D::iterator it) { ih = ih * 1000003ULL + (u64)(it - d.begin()) + 1; };
    for(const DataOp& o : *rq.dops)
    {
        const V v = static_cast<V>(o.v);
        switch(o.kind)
        {
        case DO_PUSH_BACK: d.push_back(v); break;
        case DO_POP_BACK: d.pop_back(); break;
        case DO_INSERT1: note(d.insert(d.begin() + (std::ptrdiff_t)o.a, v)); break;
        case DO_INSERTN: note(d.insert(d.begin() + (std::ptrdiff_t)o.a, (size_type)o.b, v)); break;
        case DO_INSERT_RANGE:
            if(o.v & 1)
                note(d.insert(d.begin() + (std::ptrdiff_t)o.a, CountingInputIt{0, o.v}, CountingInputIt{o.b, o.v}));
            else
            {
                V tmp[64];
                const std::size_t k = (std::size_t)(o.b < 64 ? o.b : 64);
                for(std::size_t i = 0; i < k; i++) tmp[i] = static_cast<V>(o.v + i);
                note(d.insert(d.begin() + (std::ptrdiff_t)o.a, tmp, tmp + k));
            }
            break;
        case DO_INSERT_IL: note(d.insert(d.begin() + (std::ptrdiff_t)o.a, {v, static_cast<V>(o.v + 1), static_cast<V>(o.v + 2)})); break;
        case DO_ERASE1: note(d.erase(d.begin() + (std::ptrdiff_t)o.a)); break;
        case DO_ERASE2: note(d.erase(d.begin() + (std::ptrdiff_t)o.a, d.begin() + (std::ptrdiff_t)(o.a + o.b))); break;
        case DO_RESIZE: d.resize((size_type)o.a); break;
        case DO_RESIZE_V: d.resize((size_type)o.a, v); break;
        case DO_RESIZE_DI: d.resize((size_type)o.a, sbepp::default_init); break;
        case DO_ASSIGN_N: d.assign((size_type)o.a, v); break;
        case DO_ASSIGN_RANGE:
            if(o.v & 1)
                d.assign(CountingInputIt{0, o.v}, CountingInputIt{o.a, o.v});
            else
            {
                V tmp[64];
                const std::size_t k = (std::size_t)(o.a < 64 ? o.a : 64);
                for(std::size_t i = 0; i < k; i++) tmp[i] = static_cast<V>(o.v + i);
                d.assign(tmp, tmp + k);
            }
            break;
        case DO_ASSIGN_IL: d.assign({v, static_cast<V>(o.v + 1)}); break;
        case DO_ASSIGN_STRING:
        {
            char buf[72];
            const std::size_t k = (std::size_t)(o.a < 64 ? o.a : 64);
            std::memset(buf, 'a' + (o.v % 26), k);
            buf[k] = 0;
            const char* cstr = buf;
            d.assign_string(cstr);
            break;
        }
        case DO_ASSIGN_RANGE2:
        {
            std::vector<V> src;
            for(u64 i = 0; i < o.a && i < 64; i++) src.push_back(static_cast<V>(o.v + i));
            d.assign_range(src);
            break;
        }
        case DO_CLEAR: d.clear(); break;
        default: break;
        }
    }
    rs.has_view = true;
    rs.vsize = (u64)d.size();
    rs.vhash = data_hash(d);
    rs.has_bits = true;
    rs.bits = ih;
    rs.has_addr = true;
    rs.addr_off = cx.off(sbepp::addressof(d));
}
template<class D>
void data_op(Ctx& cx, D d)
{
    const Req& rq = *cx.rq;
    Res& rs = *cx.rs;
    using size_type = typename D::size_type;
    using V = typename D::value_type;
    switch(rq.sub)
    {
    case D_ADDR:
        rs.has_addr = true;
        rs.addr_off = cx.off(sbepp::addressof(d));
        break;
    case D_INFO:
        rs.has_addr = true;
        rs.addr_off = cx.off(sbepp::addressof(d));
        rs.has_view = true;
        rs.vsize = (u64)d.size();
        rs.vhash = data_hash(d);
        break;
    case D_HISTORY:
        if constexpr(!is_ro<D>())
            data_history(cx, d);
        else
            rs.unsupported = true;
        break;
    case D_SIZE:
        rs.has_bits = true;
        rs.bits = (u64)d.size();
        break;
    case D_READ_ALL:
    {
        u64 sum = 0;
        for(auto it = d.begin(); it != d.end(); ++it) sum = sum * 131 + (u8)*it;
        rs.has_bits = true;
        rs.bits = sum;
        break;
    }
    case D_INDEX:
        rs.has_bits = true;
        rs.bits = (u8)d[(size_type)rq.arg];
        break;
    case D_FRONT:
        rs.has_bits = true;
        rs.bits = (u8)d.front();
        break;
    case D_BACK:
        rs.has_bits = true;
        rs.bits = (u8)d.back();
        break;
    case D_SIZE_BYTES:
        rs.has_bits = true;
        rs.bits = sbepp::size_bytes(d);
        break;
    case D_RESIZE:
        if constexpr(!is_ro<D>())
            d.resize((size_type)rq.arg);
        else
            rs.unsupported = true;
        break;
    case D_PUSH_BACK:
        if constexpr(!is_ro<D>())
            d.push_back(static_cast<V>(rq.arg));
        else
            rs.unsupported = true;
        break;
    case D_ASSIGN_STRING:
    if constexpr(is_ro<D>())
        rs.unsupported = true;
    else
    {
        char buf[64];
        std::size_t len = (std::size_t)rq.arg < sizeof(buf) - 1 ? (std::size_t)rq.arg : sizeof(buf) - 1;
        std::memset(buf, 'y', len);
        buf[len] = 0;
        const char* cstr = buf;
        d.assign_string(cstr);
        break;
    }
    case D_ASSIGN_STRING_LONG:
        if constexpr(!is_ro<D>())
        {
            static const char long_text[] = "0123456789012345678901234567890123456789";
            const char* cstr = long_text;
            if(40 <= (u64)D::max_size()) d.assign_string(cstr);
        }
        else
            rs.unsupported = true;
        break;
    case D_CLEAR:
        if constexpr(!is_ro<D>())
            d.clear();
        else
            rs.unsupported = true;
        break;
    default: rs.unsupported = true;
    }
}

// -------------------------------------------------------- recording visitor
template<class TagId>
struct Recorder
{
    Ctx* cx;
    long long stop_at;
    bool deep;
    long long ticks = 0;
    bool stopped = false;

    bool tick()
    {
        ++ticks;
        if(ticks == stop_at) stopped = true;
        return stopped;
    }
    template<class T, class Tag>
    Event& rec(int kind, T v, Tag)
    {
        Event ev;
        ev.kind = kind;
        ev.tag = TagId::id(Tag{});
        describe(*cx, v, ev.has_bits, ev.bits, ev.has_addr, ev.addr_off, ev.size);
        if(cx->rs->events.size() >= kMaxRecords) runaway();
        cx->rs->events.push_back(ev);
        return cx->rs->events.back();
    }
    template<class T, class Cursor, class Tag>
    void on_message(T m, Cursor& c, Tag t)
    {
        rec(EV_MESSAGE, m, t).cursor_off = cx->off(c.pointer());
        if(tick()) return;
        if(deep) sbepp::visit_children(m, c, *this);
    }
    template<class T, class Cursor, class Tag>
    bool on_group(T g, Cursor& c, Tag t)
    {
        rec(EV_GROUP, g, t).cursor_off = cx->off(c.pointer());
        if(tick()) return true;
        if(deep) sbepp::visit_children(g, c, *this);
        return stopped;
    }
    template<class T, class Cursor>
    bool on_entry(T e, Cursor& c)
    {
        Event ev;
        ev.kind = EV_ENTRY;
        ev.tag = -1;
        ev.has_addr = true;
        ev.addr_off = cx->off(sbepp::addressof(e));
        ev.cursor_off = cx->off(c.pointer());
        if(cx->rs->events.size() >= kMaxRecords) runaway();
        cx->rs->events.push_back(ev);
        if(tick()) return true;
        if(deep) sbepp::visit_children(e, c, *this);
        return stopped;
    }
    template<class T, class Tag>
    bool leaf(int kind, T v, Tag t)
    {
        rec(kind, v, t);
        if(tick()) return true;
        if constexpr(sbepp::is_composite<T>::value)
        {
            if(deep) sbepp::visit_children(v, *this);
        }
        else if constexpr(sbepp::is_enum<T>::value || sbepp::is_set<T>::value)
        {
            sbepp::visit(v, *this);
        }
        return stopped;
    }
    template<class T, class Tag>
    bool on_field(T v, Tag t)
    {
        return leaf(EV_FIELD, v, t);
    }
    template<class T, class Tag>
    bool on_data(T d, Tag t)
    {
        Event& ev = rec(EV_DATA, d, t);
        ev.size = (u64)d.size();
        return tick();
    }
    template<class T, class Tag>
    bool on_composite(T v, Tag t)
    {
        return leaf(EV_COMPOSITE, v, t);
    }
    template<class T, class Tag>
    bool on_type(T v, Tag t)
    {
        return leaf(EV_TYPE, v, t);
    }
    template<class T, class Tag>
    bool on_enum(T v, Tag t)
    {
        return leaf(EV_ENUM, v, t);
    }
    template<class T, class Tag>
    bool on_set(T v, Tag t)
    {
        return leaf(EV_SET, v, t);
    }
    template<class T, class Tag>
    void on_enum_value(T v, Tag t)
    {
        rec(EV_ENUM_VALUE, v, t);
    }
    template<class Tag>
    void on_set_choice(bool b, Tag t)
    {
        rec(EV_SET_CHOICE, b, t);
    }
};

// the context for visitors the library default-constructs (visit<Visitor>(view))
inline Ctx*& current_ctx()
{
    static Ctx* c = nullptr;
    return c;
}
inline long long& current_stop_at()
{
    static long long s = -1;
    return s;
}
template<class TagId>
struct AutoRecorder : Recorder<TagId>
{
    AutoRecorder() : Recorder<TagId>{current_ctx(), current_stop_at(), true} {}
};

// ------------------------------------------------------------ cursor walk
struct ScriptState
{
    const std::vector<Decision>* script;
    std::size_t next_i = 0;
    Decision next()
    {
        if(script && next_i < script->size()) return (*script)[next_i++];
        next_i++;
        return Decision{};
    }
};

template<class Cursor, class F>
auto with_wrapper(int w, Cursor& c, F&& f)
{
    // f is called with the wrapped cursor; returns nothing (results are recorded inside f)
#ifdef WIRE_REDUCED_API
    // fallback build of a driver whose full form does not compile against the generated headers: only the
    // plain cursor is instantiated; ops that need a wrapper report "unsupported" (message_op)
    (void)w;
    f(c, bool_c<false>{});
    return;
#else
    switch(w)
    {
    case W_INIT: f(sbepp::cursor_ops::init(c), bool_c<false>{}); break;
    case W_DONT_MOVE: f(sbepp::cursor_ops::dont_move(c), bool_c<false>{}); break;
    case W_INIT_DONT_MOVE: f(sbepp::cursor_ops::init_dont_move(c), bool_c<false>{}); break;
    case W_SKIP: f(sbepp::cursor_ops::skip(c), bool_c<true>{}); break;
    default: f(c, bool_c<false>{}); break;
    }
#endif
}

#ifdef WIRE_REDUCED_API
constexpr bool kReducedApi = true;
#else
constexpr bool kReducedApi = false;
#endif

inline bool script_is_plain(const std::vector<Decision>* sc)
{
    if(!sc) return true;
    for(auto& d : *sc)
        if(d.wrapper != W_PLAIN) return false;
    return true;
}

inline bool is_moving(int w)
{
    return w == W_PLAIN || w == W_INIT || w == W_SKIP || w == W_OMIT;
}

template<class L, class View, class Cursor>
void cursor_level(Ctx& cx, View v, Cursor& c, ScriptState& ss, u64 inst_start);

// Calls a member through its named accessor or, when by_tag is set, through
// sbepp::get_by_tag / set_by_tag with the member's tag (cursor forms).
template<class TagT, class V, class Cur, class = void>
struct has_get_by_tag_cursor : std::false_type
{
};
template<class TagT, class V, class Cur>
struct has_get_by_tag_cursor<TagT, V, Cur, std::void_t<decltype(sbepp::get_by_tag<TagT>(std::declval<V>(), std::declval<Cur>()))>> : std::true_type
{
};
template<class TagT, class V, class Val, class Cur, class = void>
struct has_set_by_tag_cursor : std::false_type
{
};
template<class TagT, class V, class Val, class Cur>
struct has_set_by_tag_cursor<TagT, V, Val, Cur, std::void_t<decltype(sbepp::set_by_tag<TagT>(std::declval<V>(), std::declval<Val>(), std::declval<Cur>()))>> : std::true_type
{
};

template<class TagT, class Acc>
struct ByTagOrNamed
{
    bool by_tag;
    Acc named;
    template<class V>
    decltype(auto) operator()(V&& v) const
    {
        return named(v);
    }
    template<class V, class Cur>
    decltype(auto) operator()(V&& v, Cur&& cur) const
    {
        if constexpr(has_get_by_tag_cursor<TagT, V&, Cur&&>::value)
        {
            if(by_tag) return sbepp::get_by_tag<TagT>(v, std::forward<Cur>(cur));
        }
        else if(by_tag)
            api_gap_slot() = "sbepp::get_by_tag<Tag>(view, cursor) is not callable although view.member(cursor) is";
        return named(v, std::forward<Cur>(cur));
    }
    template<class V, class Val, class Cur>
    void operator()(V&& v, Val&& val, Cur&& cur) const
    {
        if constexpr(has_set_by_tag_cursor<TagT, V&, Val&&, Cur&&>::value)
        {
            if(by_tag)
            {
                sbepp::set_by_tag<TagT>(v, std::forward<Val>(val), std::forward<Cur>(cur));
                return;
            }
        }
        else if(by_tag)
            api_gap_slot() = "sbepp::set_by_tag<Tag>(view, value, cursor) is not callable although view.member(value, cursor) is";
        named(v, std::forward<Val>(val), std::forward<Cur>(cur));
    }
};

template<class Cursor>
CursorStep& begin_step(Ctx& cx, Cursor& c, int level, u64 inst_start, int mkind, int member, const Decision& d)
{
    CursorStep st;
    st.level = level;
    st.inst_start = inst_start;
    st.mkind = mkind;
    st.member = member;
    st.wrapper = d.wrapper;
    if(d.displace) c.pointer() += d.displace;
    st.cursor_before = cx.off(c.pointer());
    if(cx.rs->csteps.size() >= kMaxRecords) runaway();
    cx.rs->csteps.push_back(st);
    return cx.rs->csteps.back();
}

template<class L, class View, class Cursor>
void cursor_level(Ctx& cx, View v, Cursor& c, ScriptState& ss, u64 inst_start)
{
    constexpr bool writable_cursor = !std::is_const<typename std::remove_reference<decltype(*c.pointer())>::type>::value;
    for(int i = 0; i < L::n_fields; i++)
    {
        L::field(i, [&](auto k, auto, auto acc0, auto tag) {
            using K = decltype(k);
            using TagT = typename decltype(tag)::type;
            // the named accessor, or the same call routed through the tag-based API
            ByTagOrNamed<TagT, decltype(acc0)> acc{cx.by_tag, acc0};
            for(int rep = 0; rep < 4; rep++)
            {
                Decision d = ss.next();
                if(d.wrapper == W_OMIT) break;
                begin_step(cx, c, L::index, inst_start, T_FIELD, i, d);
                with_wrapper(d.wrapper, c, [&](auto&& wc, auto is_skip) {
                    CursorStep& st = cx.rs->csteps.back();
                    if constexpr(decltype(is_skip)::value)
                    {
                        acc(v, std::forward<decltype(wc)>(wc));
                    }
                    else if constexpr(K::value == K_COMPOSITE || K::value == K_ARRAY)
                    {
                        auto r = acc(v, std::forward<decltype(wc)>(wc));
                        st.has_addr = true;
                        st.addr_off = cx.off(sbepp::addressof(r));
                    }
                    else
                    {
                        if constexpr(writable_cursor)
                        {
                            if(d.write)
                            {
                                // write the value the script carries (the model supplies what the frame holds,
                                // so the content is unchanged); no random-access call is involved
                                using T = decltype(acc(v));
                                const auto nv = make_value<T>(k, d.value);
                                acc(v, nv, std::forward<decltype(wc)>(wc));
                                st.has_bits = true;
                                st.bits = value_bits(k, nv);
                                st.cursor_off = cx.off(c.pointer());
                                return;
                            }
                        }
                        auto r = acc(v, std::forward<decltype(wc)>(wc));
                        st.has_bits = true;
                        st.bits = value_bits(k, r);
                    }
                    st.cursor_off = cx.off(c.pointer());
                });
                cx.rs->csteps.back().cursor_off = cx.off(c.pointer());
                if(is_moving(d.wrapper)) break;
            }
        });
    }
    for(int gi = 0; gi < L::n_groups; gi++)
    {
        L::group(gi, [&](auto child, auto, auto acc0, auto tag) {
            using Child = typename decltype(child)::type;
            using TagT = typename decltype(tag)::type;
            ByTagOrNamed<TagT, decltype(acc0)> acc{cx.by_tag, acc0};
            for(int rep = 0; rep < 4; rep++)
            {
                Decision d = ss.next();
                if(d.wrapper == W_OMIT) break;
                begin_step(cx, c, L::index, inst_start, T_GROUP, gi, d);
                with_wrapper(d.wrapper, c, [&](auto&& wc, auto is_skip) {
                    if constexpr(decltype(is_skip)::value)
                    {
                        acc(v, std::forward<decltype(wc)>(wc));
                        cx.rs->csteps.back().cursor_off = cx.off(c.pointer());
                    }
                    else
                    {
                        auto g = acc(v, std::forward<decltype(wc)>(wc));
                        {
                            CursorStep& st = cx.rs->csteps.back();
                            st.has_addr = true;
                            st.addr_off = cx.off(sbepp::addressof(g));
                            st.cursor_off = cx.off(c.pointer());
                            st.has_view = true;
                            st.vsize = (u64)g.size();
                        }
                        if(d.wrapper == W_PLAIN || d.wrapper == W_INIT)
                        {
                            auto run_range = [&](auto range) {
                                for(const auto e : range)
                                {
                                    CursorStep st;
                                    st.level = Child::index;
                                    st.inst_start = (u64)cx.off(sbepp::addressof(e));
                                    st.mkind = T_LEVEL;
                                    st.member = gi;
                                    st.wrapper = W_PLAIN;
                                    st.has_addr = true;
                                    st.addr_off = cx.off(sbepp::addressof(e));
                                    st.cursor_off = cx.off(c.pointer());
                                    st.cursor_before = st.cursor_off;
                                    if(cx.rs->csteps.size() >= kMaxRecords) runaway();
                                    cx.rs->csteps.push_back(st);
                                    cursor_level<Child>(cx, e, c, ss, (u64)st.addr_off);
                                }
                            };
                            using size_type = typename decltype(g)::size_type;
                            const size_type total = g.size();
                            if(d.split == -2)
                            {
                                // the explicit iterator pair instead of a range-for, post-increment
                                auto it = g.cursor_begin(c);
                                const auto last = g.cursor_end(c);
                                while(it != last)
                                {
                                    const auto e = *it;
                                    CursorStep st;
                                    st.level = Child::index;
                                    st.inst_start = (u64)cx.off(sbepp::addressof(e));
                                    st.mkind = T_LEVEL;
                                    st.member = gi;
                                    st.wrapper = W_PLAIN;
                                    st.has_addr = true;
                                    st.addr_off = cx.off(sbepp::addressof(e));
                                    st.cursor_off = cx.off(c.pointer());
                                    st.cursor_before = st.cursor_off;
                                    if(cx.rs->csteps.size() >= kMaxRecords) runaway();
                                    cx.rs->csteps.push_back(st);
                                    cursor_level<Child>(cx, e, c, ss, (u64)st.addr_off);
                                    it++;
                                }
                            }
                            else if(d.split < 0 || total == 0)
                                run_range(g.cursor_range(c));
                            else
                            {
                                // cursor_subrange requires pos < size()
                                const size_type j = (size_type)((u64)d.split % (u64)total);
                                run_range(g.cursor_subrange(c, 0, j));
                                if(d.split % 2)
                                    run_range(g.cursor_subrange(c, j));
                                else
                                    run_range(g.cursor_subrange(c, j, (size_type)(total - j)));
                            }
                        }
                    }
                });
                if(is_moving(d.wrapper)) break;
            }
        });
    }
    for(int di = 0; di < L::n_data; di++)
    {
        L::data(di, [&](auto acc0, auto tag) {
            using TagT = typename decltype(tag)::type;
            ByTagOrNamed<TagT, decltype(acc0)> acc{cx.by_tag, acc0};
            for(int rep = 0; rep < 4; rep++)
            {
                Decision d = ss.next();
                if(d.wrapper == W_OMIT) break;
                begin_step(cx, c, L::index, inst_start, T_DATA, di, d);
                with_wrapper(d.wrapper, c, [&](auto&& wc, auto is_skip) {
                    CursorStep& st = cx.rs->csteps.back();
                    if constexpr(decltype(is_skip)::value)
                    {
                        acc(v, std::forward<decltype(wc)>(wc));
                    }
                    else
                    {
                        auto r = acc(v, std::forward<decltype(wc)>(wc));
                        st.has_addr = true;
                        st.addr_off = cx.off(sbepp::addressof(r));
                        st.cursor_off = cx.off(c.pointer());
                        st.has_view = true;
                        st.vsize = (u64)r.size();
                        st.vhash = data_hash(r);
                    }
                    st.cursor_off = cx.off(c.pointer());
                });
                if(is_moving(d.wrapper)) break;
            }
        });
    }
}

// ------------------------------------------------------------ real encoder
// A producer as application code writes one: header fillers, setters, fill_group_header + entries,
// data assign. Two styles: random access and the cursor idiom of the documentation. `budget` counts
// writes; when it runs out the encoder stops where it is (a torn encode: the slot holds a prefix of the
// producer's work over whatever was there before).
struct EncBudget
{
    long long left; // < 0: unlimited
    Res* rs;        // progress is published as it happens (it must be readable after a fault)
    u64 done = 0;
    bool take()
    {
        if(left == 0) return false;
        if(left > 0) --left;
        rs->has_bits = true;
        rs->bits = ++done;
        return true;
    }
};

// One field written the way application code writes it: scalars / enums / sets through the setter, arrays
// through the pointer data() hands out (it validates the whole array), composites member by member.
template<class C, class CV>
void put_composite(const SchemaShape& sh, CV cv, const CompShape& cs, const u8* src);

template<class K, class Comp, class R>
void put_view(const SchemaShape& sh, K, Comp, R r, const MemberShape& ms, const u8* src)
{
    if constexpr(K::value == K_ARRAY)
    {
        auto* dst = r.data();
        if(ms.size) std::memcpy(dst, src, ms.size);
    }
    else
    {
        put_composite<typename Comp::type>(sh, r, sh.comps[(std::size_t)ms.comp], src);
    }
}

template<class C, class CV>
void put_composite(const SchemaShape& sh, CV cv, const CompShape& cs, const u8* src)
{
    for(int i = 0; i < C::n; i++)
    {
        const MemberShape& ms = cs.members[(std::size_t)i];
        C::member(i, [&](auto k, auto comp, auto acc, auto) {
            using K = decltype(k);
            if constexpr(K::value == K_COMPOSITE || K::value == K_ARRAY)
                put_view(sh, k, comp, acc(cv), ms, src + ms.offset);
            else
            {
                using T = decltype(acc(cv));
                acc(cv, make_value<T>(k, rd(src + ms.offset, (int)ms.size, sh.big)));
            }
        });
    }
}

template<class L, class View>
bool encode_level(Ctx& cx, View v, const Node& n, const SchemaShape& sh, EncBudget& bud)
{
    const LevelShape& lv = sh.levels[(std::size_t)L::index];
    bool go = true;
    // fields: written through the real setters, from the value bits the reference block carries
    for(int i = 0; i < L::n_fields && go; i++)
    {
        const MemberShape& ms = lv.fields[(std::size_t)i];
        L::field(i, [&](auto k, auto comp, auto acc, auto) {
            using K = decltype(k);
            if(!bud.take())
            {
                go = false;
                return;
            }
            const u8* src = n.block.data() + ms.offset;
            if constexpr(K::value == K_COMPOSITE || K::value == K_ARRAY)
                put_view(sh, k, comp, acc(v), ms, src);
            else
            {
                using T = decltype(acc(v));
                acc(v, make_value<T>(k, rd(src, (int)ms.size, sh.big)));
            }
        });
    }
    for(int gi = 0; gi < L::n_groups && go; gi++)
    {
        const GroupInst& gin = n.groups[(std::size_t)gi];
        L::group(gi, [&](auto child, auto flat, auto acc, auto) {
            using Child = typename decltype(child)::type;
            if(!bud.take())
            {
                go = false;
                return;
            }
            auto g = acc(v);
            using size_type = typename decltype(g)::size_type;
            sbepp::fill_group_header(g, (size_type)gin.entries.size());
            std::size_t idx = 0;
            if constexpr(decltype(flat)::value)
            {
                for(auto& en : gin.entries)
                {
                    if(!(go = encode_level<Child>(cx, g[(size_type)idx++], en, sh, bud))) return;
                }
            }
            else
            {
                for(auto it = g.begin(); it != g.end(); ++it)
                {
                    if(!(go = encode_level<Child>(cx, *it, gin.entries[idx++], sh, bud))) return;
                }
            }
        });
    }
    for(int di = 0; di < L::n_data && go; di++)
    {
        L::data(di, [&](auto acc, auto) {
            if(!bud.take())
            {
                go = false;
                return;
            }
            auto d = acc(v);
            using V = typename decltype(d)::value_type;
            const auto& bytes = n.data[(std::size_t)di];
            d.assign(reinterpret_cast<const V*>(bytes.data()), reinterpret_cast<const V*>(bytes.data()) + bytes.size());
        });
    }
    return go;
}

#ifndef WIRE_REDUCED_API
// The same producer in the cursor idiom: fields through plain cursor setters (views through the plain
// cursor getter), `auto g = v.group(c); fill_group_header(g, n); for(e : g.cursor_range(c))`, data through
// dont_move + assign followed by skip.
template<class L, class View, class Cursor>
bool encode_level_cursor(Ctx& cx, View v, Cursor& c, const Node& n, const SchemaShape& sh, EncBudget& bud)
{
    const LevelShape& lv = sh.levels[(std::size_t)L::index];
    bool go = true;
    for(int i = 0; i < L::n_fields && go; i++)
    {
        const MemberShape& ms = lv.fields[(std::size_t)i];
        L::field(i, [&](auto k, auto comp, auto acc, auto) {
            using K = decltype(k);
            if(!bud.take())
            {
                go = false;
                return;
            }
            const u8* src = n.block.data() + ms.offset;
            if constexpr(K::value == K_COMPOSITE || K::value == K_ARRAY)
                put_view(sh, k, comp, acc(v, c), ms, src);
            else
            {
                using T = decltype(acc(v));
                acc(v, make_value<T>(k, rd(src, (int)ms.size, sh.big)), c);
            }
        });
    }
    for(int gi = 0; gi < L::n_groups && go; gi++)
    {
        const GroupInst& gin = n.groups[(std::size_t)gi];
        L::group(gi, [&](auto child, auto, auto acc, auto) {
            using Child = typename decltype(child)::type;
            if(!bud.take())
            {
                go = false;
                return;
            }
            auto g = acc(v, c);
            using size_type = typename decltype(g)::size_type;
            sbepp::fill_group_header(g, (size_type)gin.entries.size());
            std::size_t idx = 0;
            for(auto e : g.cursor_range(c))
            {
                if(!(go = encode_level_cursor<Child>(cx, e, c, gin.entries[idx++], sh, bud))) return;
            }
        });
    }
    for(int di = 0; di < L::n_data && go; di++)
    {
        L::data(di, [&](auto acc, auto) {
            if(!bud.take())
            {
                go = false;
                return;
            }
            auto d = acc(v, sbepp::cursor_ops::dont_move(c));
            using V = typename decltype(d)::value_type;
            const auto& bytes = n.data[(std::size_t)di];
            d.assign(reinterpret_cast<const V*>(bytes.data()), reinterpret_cast<const V*>(bytes.data()) + bytes.size());
            acc(v, sbepp::cursor_ops::skip(c));
        });
    }
    return go;
}

#endif // WIRE_REDUCED_API

// ---------------------------------------------------------- level dispatch
template<class L, class View, class TagId>
void level_op(Ctx& cx, View v)
{
    const Req& rq = *cx.rq;
    Res& rs = *cx.rs;
    switch(rq.target)
    {
    case T_FIELD:
        if(rq.member < L::n_fields)
            L::field(rq.member, [&](auto k, auto comp, auto acc, auto tag) { field_op(cx, v, k, comp, acc, tag, 0); });
        else
            rs.unsupported = true;
        break;
    case T_GROUP:
        if(rq.member < L::n_groups)
            L::group(rq.member, [&](auto, auto flat, auto acc, auto tag) {
                if(rq.sub == GET_BY_TAG)
                {
                    auto g = sbepp::get_by_tag<typename decltype(tag)::type>(v);
                    rs.has_addr = true;
                    rs.addr_off = cx.off(sbepp::addressof(g));
                }
                else
                    group_op(cx, acc(v), flat);
            });
        else
            rs.unsupported = true;
        break;
    case T_DATA:
        if(rq.member < L::n_data)
            L::data(rq.member, [&](auto acc, auto tag) {
                if(rq.sub == GET_BY_TAG)
                {
                    auto d = sbepp::get_by_tag<typename decltype(tag)::type>(v);
                    rs.has_addr = true;
                    rs.addr_off = cx.off(sbepp::addressof(d));
                }
                else if((rq.sub == D_HISTORY || rq.sub == D_INFO) && rq.arg != 0)
                {
                    // the same member obtained the other ways the generated code offers
                    using TagT = typename decltype(tag)::type;
                    if(rq.arg == 1)
                        data_op(cx, sbepp::get_by_tag<TagT>(v));
#ifdef WIRE_REDUCED_API
                    else
                        rs.unsupported = true;
#else
                    else
                    {
                        auto c = sbepp::init_cursor(v);
                        if(rq.arg == 2)
                            data_op(cx, acc(v, sbepp::cursor_ops::init(c)));
                        else if(rq.arg == 3)
                            data_op(cx, acc(v, sbepp::cursor_ops::init_dont_move(c)));
                        else
                        {
                            if constexpr(has_get_by_tag_cursor<TagT, View&, decltype(sbepp::cursor_ops::init(c))>::value)
                                data_op(cx, sbepp::get_by_tag<TagT>(v, sbepp::cursor_ops::init(c)));
                            else
                                rs.unsupported = true;
                        }
                    }
#endif
                }
                else
                    data_op(cx, acc(v));
            });
        else
            rs.unsupported = true;
        break;
    case T_LEVEL:
        if(rq.sub == L_SIZE_BYTES)
        {
            rs.has_bits = true;
            rs.bits = sbepp::size_bytes(v);
        }
        else if(rq.sub == L_VISIT_CHILDREN)
        {
            auto c = sbepp::init_cursor(v);
            // groups must be traversed for the cursor to reach the next member: always descend
            Recorder<TagId> r{&cx, rq.stop_at, true};
            sbepp::visit_children(v, c, r);
            rs.cursor_off = cx.off(c.pointer());
        }
        else if(rq.sub == G_ADDR)
        {
            rs.has_addr = true;
            rs.addr_off = cx.off(sbepp::addressof(v));
        }
        else
            rs.unsupported = true;
        break;
    default: rs.unsupported = true;
    }
}

template<class L, class View, class TagId>
void at_level(Ctx& cx, View v, std::size_t depth);

// entry<Byte> -> entry<const Byte> through the converting constructor (the bounds must travel along)
template<template<class> class V, class B>
V<const B> to_const_view(V<B> v)
{
    return V<const B>{v};
}

template<class Child, class TagId, class E>
void descend_entry(Ctx& cx, E e, std::size_t depth)
{
    if constexpr(!is_ro<E>())
    {
        if(cx.rq->entry_to_const)
        {
            auto ce = to_const_view(e);
            at_level<Child, decltype(ce), TagId>(cx, ce, depth);
            return;
        }
    }
    at_level<Child, E, TagId>(cx, e, depth);
}

template<class L, class View, class TagId>
void at_level(Ctx& cx, View v, std::size_t depth)
{
    const Req& rq = *cx.rq;
    if(depth == rq.path.size())
    {
        level_op<L, View, TagId>(cx, v);
        return;
    }
    const PathStep st = rq.path[depth];
    if(st.group >= L::n_groups)
    {
        cx.rs->unsupported = true;
        return;
    }
    L::group(st.group, [&](auto child, auto flat, auto acc, auto) {
        using Child = typename decltype(child)::type;
        auto g = acc(v);
        using size_type = typename decltype(g)::size_type;
        if constexpr(decltype(flat)::value)
        {
            const std::ptrdiff_t i = (std::ptrdiff_t)st.entry;
            auto pick = [&]() {
                switch(st.route)
                {
                case 1: return *advanced(g.begin(), i);
                case 2:
                {
                    const std::ptrdiff_t back = (std::ptrdiff_t)g.size() - i;
                    return *advanced(g.end(), -back);
                }
                case 3: return g.back();
                case 4: return g.front();
                case 5:
                {
                    auto it = g.begin();
                    for(std::ptrdiff_t k = 0; k < i; k++) ++it;
                    return *it;
                }
                case 6:
                {
                    const std::ptrdiff_t back = (std::ptrdiff_t)g.size() - i;
                    using It = decltype(g.end());
                    if(fits_difference<It>(-back)) return g.end()[static_cast<typename It::difference_type>(-back)];
                    return advanced(g.end(), -back + 1)[-1];
                }
                default: return g[(size_type)st.entry];
                }
            };
            auto e = pick();
            descend_entry<Child, TagId>(cx, e, depth + 1);
        }
        else
        {
            auto it = g.begin();
            for(u64 i = 0; i < st.entry; i++) ++it;
            auto e = *it;
            descend_entry<Child, TagId>(cx, e, depth + 1);
        }
    });
}

// type-level descent: the view type of group `rq.member` of the level reached through rq.path
template<class L, class View, class F>
void group_type_at(const Req& rq, std::size_t depth, F&& f, Res& rs)
{
    if(depth == rq.path.size())
    {
        if(rq.member >= L::n_groups)
        {
            rs.unsupported = true;
            return;
        }
        L::group(rq.member, [&](auto, auto, auto acc, auto) {
            using G = typename std::decay<decltype(acc(std::declval<View&>()))>::type;
            f(type_c<G>{});
        });
        return;
    }
    if(rq.path[depth].group >= L::n_groups)
    {
        rs.unsupported = true;
        return;
    }
    L::group(rq.path[depth].group, [&](auto child, auto, auto acc, auto) {
        using Child = typename decltype(child)::type;
        using G = typename std::decay<decltype(acc(std::declval<View&>()))>::type;
        using E = typename std::decay<decltype(*std::declval<G&>().begin())>::type;
        group_type_at<Child, E>(rq, depth + 1, f, rs);
    });
}

// ---------------------------------------------------------- message dispatch
#ifdef WIRE_PRODUCER_ONLY
// drivers of "later version" schemas bind the real encoder only (keeps their compile time small)
template<class Msg, class TagId>
void message_op(Ctx& cx, const SchemaShape& sh)
{
    using L = typename Msg::level;
    using ByteT = WIRE_BYTE;
    using MV = typename Msg::template view<ByteT>;
    const Req& rq = *cx.rq;
    Res& rs = *cx.rs;
    if(rq.target != T_MESSAGE || rq.sub != M_ENCODE)
    {
        rs.unsupported = true;
        return;
    }
    MV m{reinterpret_cast<ByteT*>(rq.p), rq.n};
    const Node& root = *static_cast<const Node*>(rq.tree);
    EncBudget bud{rq.arg2 ? (long long)rq.arg2 - 1 : -1, &rs};
    bool whole = false;
    if(bud.take())
    {
        sbepp::fill_message_header(m);
        if(rq.arg & 1)
        {
#ifdef WIRE_REDUCED_API
            rs.unsupported = true;
#else
            auto c = sbepp::init_cursor(m);
            whole = encode_level_cursor<L>(cx, m, c, root, sh, bud);
            rs.cursor_off = cx.off(c.pointer());
#endif
        }
        else
            whole = encode_level<L>(cx, m, root, sh, bud);
    }
    rs.valid = whole;
    if(whole) rs.size = sbepp::size_bytes(m);
}
#else
template<class Msg, class TagId>
void message_op(Ctx& cx, const SchemaShape& sh)
{
    using L = typename Msg::level;
    // the byte type the views are instantiated with is a build-flavour choice (char, unsigned char, std::byte)
    using ByteT = WIRE_BYTE;
    using MV = typename Msg::template view<ByteT>;
    using CMV = typename Msg::template view<const ByteT>;
    const Req& rq = *cx.rq;
    Res& rs = *cx.rs;
    ByteT* p = reinterpret_cast<ByteT*>(rq.p);
    MV m = rq.ctor == 1 ? sbepp::make_view<Msg::template view>(p, rq.n) : MV{p, rq.n};
    if(rq.target == T_GROUP_AT_P)
    {
        // rq.path names the chain of groups (entry indexes are irrelevant: only types are needed)
        // down to the level that owns group rq.member; the group view is constructed directly at p
        group_type_at<L, CMV>(rq, 0, [&](auto gt) {
            using G = typename decltype(gt)::type;
            G g{const_cast<const ByteT*>(p), rq.n};
            auto r = sbepp::size_bytes_checked(g, rq.size_arg >= 0 ? (std::size_t)rq.size_arg : rq.n);
            rs.valid = r.valid;
            rs.size = r.size;
        }, rs);
        return;
    }
    if(rq.target != T_MESSAGE)
    {
        if(rq.via_const_view)
        {
            CMV cm = m; // the converting constructor must carry the bounds along
            if(rq.ctor == 2) cm = sbepp::make_const_view<Msg::template view>(p, rq.n);
            at_level<L, CMV, TagId>(cx, cm, 0);
        }
        else
            at_level<L, MV, TagId>(cx, m, 0);
        return;
    }
    switch(rq.sub)
    {
    case M_HEADER:
    {
        auto h = sbepp::get_header(m);
        rs.has_addr = true;
        rs.addr_off = cx.off(sbepp::addressof(h));
        rs.size = sbepp::size_bytes(h);
        break;
    }
    case M_HEADER_FIELDS:
    {
        auto h = sbepp::get_header(m);
        auto bl = h.blockLength();
        auto ti = h.templateId();
        auto si = h.schemaId();
        auto ve = h.version();
        h.blockLength(bl);
        h.templateId(ti);
        h.schemaId(si);
        h.version(ve);
        rs.has_bits = true;
        rs.bits = ((to_bits(bl.value()) * 1000003ULL + to_bits(ti.value())) * 1000003ULL + to_bits(si.value())) * 1000003ULL + to_bits(ve.value());
        break;
    }
    case M_FILL_HEADER:
    {
        auto h = sbepp::fill_message_header(m);
        rs.has_addr = true;
        rs.addr_off = cx.off(sbepp::addressof(h));
        break;
    }
    case M_SBC:
    {
        CMV cm{const_cast<const ByteT*>(p), rq.n};
        auto r = sbepp::size_bytes_checked(cm, rq.size_arg >= 0 ? (std::size_t)rq.size_arg : rq.n);
        rs.valid = r.valid;
        rs.size = r.size;
        break;
    }
    case M_CURSOR_WALK:
    case M_SIZE_BYTES_CURSOR:
    {
        if(kReducedApi && rq.sub == M_CURSOR_WALK && !script_is_plain(rq.script))
        {
            rs.unsupported = true;
            break;
        }
        ScriptState ss{rq.sub == M_CURSOR_WALK ? rq.script : nullptr};
        cx.by_tag = (rq.arg & 4) != 0;
        if(rq.arg & 1)
        {
            CMV cm{const_cast<const ByteT*>(p), rq.n};
            // a const cursor: either made for the const view, or converted from a mutable one
            auto c0 = sbepp::init_cursor(m);
            sbepp::cursor<const ByteT> c = (rq.arg & 8) ? sbepp::cursor<const ByteT>{c0} : sbepp::init_const_cursor(cm);
            if((rq.arg & 24) == 24)
            {
                // ... or by the converting *assignment* to a cursor that was somewhere else before
                sbepp::cursor<const ByteT> other = sbepp::init_const_cursor(cm);
                other.pointer() += 3;
                other = c0;
                c = other;
            }
            rs.cursor_off = cx.off(c.pointer());
            cursor_level<L>(cx, cm, c, ss, 0);
            rs.cursor_off = cx.off(c.pointer());
            if(!(rq.arg & 2))
            {
                rs.size = sbepp::size_bytes(cm, c);
                rs.valid = true;
            }
        }
        else
        {
            auto c = sbepp::init_cursor(m);
            rs.cursor_off = cx.off(c.pointer());
            cursor_level<L>(cx, m, c, ss, 0);
            rs.cursor_off = cx.off(c.pointer());
            if(!(rq.arg & 2))
            {
                rs.size = sbepp::size_bytes(m, c);
                rs.valid = true;
            }
        }
        break;
    }
    case M_VISIT_FULL:
    {
        Recorder<TagId> r{&cx, rq.stop_at, true};
        if(rq.arg & 2)
        {
            // the overload without a cursor (it makes its own); the visitor passed as an lvalue
            CMV cm{const_cast<const ByteT*>(p), rq.n};
            sbepp::visit(cm, r);
            rs.bits = (u64)r.ticks;
            break;
        }
        if(rq.arg & 4)
        {
            // visit<Visitor>(view): the visitor is default-constructed by the library and handed back
            current_ctx() = &cx;
            current_stop_at() = rq.stop_at;
            auto r2 = sbepp::visit<AutoRecorder<TagId>>(m);
            rs.bits = (u64)r2.ticks;
            break;
        }
        if(rq.arg & 8)
        {
            // visit_children(view, visitor) without a cursor, visitor as an rvalue
            CMV cm{const_cast<const ByteT*>(p), rq.n};
            auto&& r3 = sbepp::visit_children(cm, Recorder<TagId>{&cx, rq.stop_at, true});
            rs.bits = (u64)r3.ticks;
            break;
        }
        if(rq.arg & 1)
        {
            // through the mutable view with a mutable cursor
            auto c = sbepp::init_cursor(m);
            sbepp::visit(m, c, r);
            rs.cursor_off = cx.off(c.pointer());
        }
        else
        {
            CMV cm{const_cast<const ByteT*>(p), rq.n};
            auto c = sbepp::init_const_cursor(cm);
            sbepp::visit(cm, c, r);
            rs.cursor_off = cx.off(c.pointer());
        }
        rs.bits = (u64)r.ticks;
        break;
    }
    case M_ENCODE:
    {
        const Node& root = *static_cast<const Node*>(rq.tree);
        EncBudget bud{rq.arg2 ? (long long)rq.arg2 - 1 : -1, &rs};
        bool whole = false;
        if(bud.take())
        {
            sbepp::fill_message_header(m);
            if(rq.arg & 1)
            {
#ifdef WIRE_REDUCED_API
                rs.unsupported = true;
#else
                auto c = sbepp::init_cursor(m);
                whole = encode_level_cursor<L>(cx, m, c, root, sh, bud);
                rs.cursor_off = cx.off(c.pointer());
#endif
            }
            else
                whole = encode_level<L>(cx, m, root, sh, bud);
        }
        rs.valid = whole;
        // the size the producer would report for what it wrote (only meaningful for a complete encode)
        if(whole) rs.size = sbepp::size_bytes(m);
        break;
    }
    default: rs.unsupported = true;
    }
}
#endif // WIRE_PRODUCER_ONLY
} // namespace wire
