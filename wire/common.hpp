// Shared by the wire checks: driver registry, frame construction from a plan,
// fault ops on the stored bytes, guarded calls into the driver.
#pragma once
#include "../sim/arena.hpp"
#include "../sim/kernel.hpp"
#include "driver_api.hpp"
#include "model.hpp"

#include <string>

namespace wire
{
using sim::Op;
using sim::Out;
using sim::Outcome;
using sim::Plan;
using sim::Result;

inline const Driver* find_driver(const std::string& name)
{
    for(auto& d : drivers())
        if(name == d.shape->name) return &d;
    return nullptr;
}

struct FrameSpec
{
    const Driver* drv = nullptr;
    int msg = 0;
    u64 tree_seed = 0;
    TreeParams tp;
};

inline bool frame_spec(const Plan& p, FrameSpec& fs)
{
    fs.drv = find_driver(p.get("schema"));
    if(!fs.drv) return false;
    fs.msg = (int)p.geti("msg");
    if(fs.msg < 0 || fs.msg >= (int)fs.drv->shape->messages.size()) return false;
    fs.tree_seed = (u64)p.geti("tree");
    fs.tp.extend = p.geti("extend") != 0;
    fs.tp.max_count = (unsigned)p.geti("maxcount", 3);
    fs.tp.max_data = (unsigned)p.geti("maxdata", 40);
    fs.tp.max_boundary = (u64)p.geti("maxboundary", 70000);
    return true;
}

inline Frame make_frame(const FrameSpec& fs)
{
    sim::Rng r(fs.tree_seed * 0x9E3779B97F4A7C15ULL + 12345);
    return gen_frame(*fs.drv->shape, fs.msg, r, fs.tp);
}

// Value catalogue for a structural field (F2): boundary values of the type and
// of the structure. `fit` is filled by the caller when known.
inline std::vector<u64> hostile_values(int width, u64 current, u64 compiled)
{
    const u64 mask = width_mask(width);
    std::vector<u64> v = {0, 1, mask - 1, mask, mask >> 1, (mask >> 1) + 1, current + 1, current ? current - 1 : 0, compiled ? compiled - 1 : 0, compiled + 1, 0x7f & mask, 0x80 & mask, 0xff & mask, 0x100 & mask};
    for(auto& x : v) x &= mask;
    std::sort(v.begin(), v.end());
    v.erase(std::unique(v.begin(), v.end()), v.end());
    return v;
}

// Faults on the stored bytes. Returns the new n (truncation).
inline void apply_byte_fault(const Op& op, const SchemaShape& sh, const Frame& f, const std::vector<StructField>& sf, std::vector<u8>& bytes, u64& n, const FrameSpec& fs)
{
    const std::string& k = op.name;
    if(k == "set")
    {
        if(sf.empty()) return;
        const StructField& s = sf[(std::size_t)(op.uarg(0) % sf.size())];
        if(s.pos + (u64)s.width <= bytes.size()) wr(&bytes[s.pos], s.width, sh.big, op.uarg(1) & width_mask(s.width));
        sim::stats().count("fault.applied.set");
    }
    else if(k == "flip")
    {
        if(bytes.empty()) return;
        bytes[(std::size_t)(op.uarg(0) % bytes.size())] ^= (u8)(op.uarg(1) | 1);
        sim::stats().count("fault.applied.flip");
    }
    else if(k == "stale")
    {
        // bytes >= k come from another frame of the same message (ring-slot reuse)
        FrameSpec o = fs;
        o.tree_seed = op.uarg(1);
        Frame other = make_frame(o);
        u64 from = bytes.empty() ? 0 : op.uarg(0) % bytes.size();
        for(u64 i = from; i < bytes.size(); i++) bytes[i] = i < other.bytes.size() ? other.bytes[i] : (u8)(i * 7);
        sim::stats().count("fault.applied.stale_tail");
    }
    else if(k == "trunc")
    {
        n = std::min<u64>(n, op.uarg(0) % (bytes.size() + 1));
        sim::stats().count("fault.applied.truncate");
    }
    (void)f;
}

// Background content of a slot before a producer writes into it (what the medium held before).
inline std::vector<u8> slot_background(const FrameSpec& fs, std::size_t size, int kind, u64 seed)
{
    std::vector<u8> bg(size, 0);
    switch(kind)
    {
    case 0: break;
    case 1: std::fill(bg.begin(), bg.end(), (u8)0xFF); break;
    case 2:
    {
        FrameSpec o = fs;
        o.tree_seed = seed;
        Frame other = make_frame(o);
        for(std::size_t i = 0; i < size; i++) bg[i] = i < other.bytes.size() ? other.bytes[i] : (u8)(i * 7 + 3);
        break;
    }
    default:
    {
        sim::Rng r(seed * 77 + 5);
        for(auto& b : bg) b = (u8)r.below(256);
        break;
    }
    }
    return bg;
}

// The CPU budget is set once per plan (PlanBudget), not per call.
inline Outcome call_driver(const Driver& d, Req& rq, Res& rs, long cpu_ms = 0)
{
    rs.reset();
    api_gap_slot() = nullptr;
    // cpu_ms: a budget for this one call (it replaces the plan's budget from here on)
    Outcome o = sim::guarded([&] { d.run(rq, rs); }, cpu_ms);
    rs.api_gap = api_gap_slot();
    return o;
}

// Known findings (status "known" in known_findings.jsonl) arrive as a comma list in
// the plan head; a violation whose signature is listed is reported as known and
// does not end the run.
inline std::set<std::string> known_set(const Plan& plan)
{
    std::set<std::string> k;
    // from the plan head and from the worker's command line (--known a,b)
    for(const std::string& src : {plan.get("known"), sim::options().count("known") ? sim::options()["known"] : std::string()})
    {
        std::istringstream ks(src);
        std::string t;
        while(std::getline(ks, t, ',')) k.insert(t);
    }
    return k;
}

inline bool is_known(Result& res, const std::set<std::string>& known, const std::string& sig)
{
    if(!known.count(sig)) return false;
    if(std::find(res.known.begin(), res.known.end(), sig) == res.known.end()) res.known.push_back(sig);
    sim::stats().count("known." + sig);
    return true;
}

inline bool memberless_message_with_block(const SchemaShape& sh, const Frame& f)
{
    const LevelShape& lv = sh.levels[(std::size_t)f.root.level];
    return lv.fields.empty() && lv.groups.empty() && lv.data.empty() && !f.root.block.empty();
}

struct PlanBudget
{
    explicit PlanBudget(long ms) { sim::set_cpu_budget_ms(ms); }
    ~PlanBudget() { sim::set_cpu_budget_ms(0); }
};
} // namespace wire
