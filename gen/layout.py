"""Independent layout model: SBE 1.0 rules + sbepp's documented conventions
(DESIGN.md appendix A). Computes sizes/offsets from the IR, resolves "+k"
offsets, and produces (a) the XML text for sbeppc and (b) the shape tables the
C++ model uses. Never calls or copies sbeppc."""
from ir import PRIMS, UINT_MAX

K_SCALAR, K_ARRAY, K_ENUM, K_SET, K_COMPOSITE = range(5)
PRIM_IDS = {n: i for i, n in enumerate(["char", "int8", "uint8", "int16", "uint16", "int32", "uint32", "int64", "uint64", "float", "double"])}
HDR_MEMBERS = ["blockLength", "templateId", "schemaId", "version", "numInGroup", "numGroups", "numVarDataFields"]


class Layout:
    def __init__(self, sch):
        self.sch = sch
        self.pkg = "w_" + sch["name"]
        self.types = {}  # name -> node (public types, incl. header and dims)
        for t in [sch["header"]] + sch["types"]:
            self.types[t["name"]] = t
        self.comp_shapes = []   # shapes of every composite *occurrence kind* (public composites and inline ones)
        self.comp_index = {}    # id(node) -> index
        self.tag_ids = []       # cpp tag path per id
        self.tag_index = {}
        self.levels = []
        self.headers = []       # dimension header shapes
        self.header_index = {}
        self.data_types = {}
        self.valuesets = []
        self.valueset_index = {}
        self.resolve_all()

    # ------------------------------------------------------------ encodings
    def enc_size(self, node):
        k = node["k"]
        if k == "type":
            if node["presence"] == "constant":
                return 0
            return PRIMS[node["prim"]] * node["length"]
        if k in ("enum", "set"):
            return PRIMS[self.resolve_enc_prim(node["enc"])]
        if k == "composite":
            return self.composite_layout(node)["size"]
        if k == "ref":
            return self.enc_size(self.types[node["type"]])
        raise ValueError(k)

    def resolve_enc_prim(self, enc):
        if enc in PRIMS:
            return enc
        return self.types[enc]["prim"]

    def composite_layout(self, node):
        if "_layout" in node:
            return node["_layout"]
        r = 0
        mem = []
        for e in node["elements"]:
            size = self.enc_size(e)
            target = e if e["k"] != "ref" else self.types[e["type"]]
            constant = target["k"] == "type" and target["presence"] == "constant"
            if constant:
                e["_abs"] = None
                continue
            off = e.get("offset")
            if isinstance(off, str):
                off = r + int(off[1:])
            elif off is None:
                off = r
            e["_abs"] = off
            e["_explicit"] = e.get("offset") is not None
            mem.append((e, target, off, size))
            r = off + size
        node["_layout"] = dict(size=r, members=mem)
        return node["_layout"]

    def member_shape(self, name, target, off, size, tag):
        k = target["k"]
        sh = dict(name=name, offset=off, size=size, count=1, comp=-1, prim=-1, tag=self.tag(tag), cpp_tag=tag, aux=-1, optional=False)
        if k == "type":
            if target["length"] != 1:
                sh.update(kind=K_ARRAY, prim=PRIM_IDS[target["prim"]], count=target["length"])
            else:
                sh.update(kind=K_SCALAR, prim=PRIM_IDS[target["prim"]], optional=target["presence"] == "optional")
        elif k == "enum":
            sh.update(kind=K_ENUM, prim=PRIM_IDS[self.resolve_enc_prim(target["enc"])], aux=self.valueset(target, "values"))
        elif k == "set":
            sh.update(kind=K_SET, prim=PRIM_IDS[self.resolve_enc_prim(target["enc"])], aux=self.valueset(target, "choices"))
        elif k == "composite":
            sh.update(kind=K_COMPOSITE, comp=self.comp_shape(target, self.type_tag_of(target)))
        return sh

    def valueset(self, target, key):
        """Value tags of an enum / choice tags of a set: (numeric value or bit, tag id)."""
        k = id(target)
        if k in self.valueset_index:
            return self.valueset_index[k]
        base = self.type_tag_of(target)
        vals = []
        for n, v in target[key]:
            num = ord(v) if isinstance(v, str) else int(v)
            vals.append((num, self.tag(base + "::" + n)))
        self.valueset_index[k] = len(self.valuesets)
        self.valuesets.append(vals)
        return self.valueset_index[k]

    def tag(self, path):
        if path in self.tag_index:
            return self.tag_index[path]
        self.tag_ids.append(path)
        self.tag_index[path] = len(self.tag_ids) - 1
        return len(self.tag_ids) - 1

    def type_tag_of(self, node):
        return node.get("_tag") or "::%s::schema::types::%s" % (self.pkg, node["name"])

    def comp_shape(self, node, tagpath):
        """Shape of a composite type; element tags hang off the composite's own tag."""
        key = id(node)
        if key in self.comp_index:
            return self.comp_index[key]
        idx = len(self.comp_shapes)
        self.comp_index[key] = idx
        self.comp_shapes.append(None)
        lay = self.composite_layout(node)
        members = []
        for e, target, off, size in lay["members"]:
            etag = tagpath + "::" + e["name"]
            if e["k"] in ("composite", "enum", "set"):
                e["_tag"] = etag  # inline encoding: its own tags nest under this element
                target = e
            members.append(self.member_shape(e["name"], target, off, size, etag))
        self.comp_shapes[idx] = dict(index=idx, name=node["name"], size=lay["size"], members=members, tag=tagpath)
        return idx

    # ------------------------------------------------------- level headers
    def header_shape(self, node):
        lay = self.composite_layout(node)
        fields = {}
        for e, target, off, size in lay["members"]:
            if e["name"] in HDR_MEMBERS:
                fields[e["name"]] = (off, size)
        return dict(name=node["name"], size=lay["size"], fields=fields)

    def dim_header(self, name):
        if name not in self.header_index:
            self.header_index[name] = len(self.headers)
            self.headers.append(self.header_shape(self.types[name]))
        return self.header_index[name]

    # --------------------------------------------------------------- levels
    def level(self, node, is_message, tagpath, hdr_bl_width):
        idx = len(self.levels)
        self.levels.append(None)
        r = 0
        fields = []
        for f in node["fields"]:
            t = f["type"]
            if t in PRIMS:
                target = dict(k="type", name=t, prim=t, length=1, presence=f["presence"] or "required")
            else:
                target = self.types[t]
                if f["presence"] == "optional" and target["k"] == "type" and target["presence"] == "required":
                    target = dict(target, presence="optional")
            # sbeppc's rule (sbe_schema_validator::get_actual_presence): a field of a named <type> has the type's
            # presence whatever the field says, a set field is always encoded, an enum field is constant only
            # if the field says so; fields of built-in primitive types have the field's presence
            if t in PRIMS or target["k"] == "enum":
                constant = f["presence"] == "constant"
            elif target["k"] == "type":
                constant = target["presence"] == "constant"
            else:
                constant = False
            if constant:
                f["_abs"] = None
                continue
            size = self.enc_size(target)
            off = f.get("offset")
            if isinstance(off, str):
                off = r + int(off[1:])
            elif off is None:
                off = r
            f["_abs"] = off if f.get("offset") is not None else None
            fields.append(self.member_shape(f["name"], target, off, size, tagpath + "::" + f["name"]))
            r = off + size
        bl = node.get("block_length")
        if isinstance(bl, str):
            bl = r + int(bl[1:])
            if bl > UINT_MAX[hdr_bl_width]:
                bl = None
        node["_bl"] = bl
        block = bl if bl is not None else r
        assert block <= UINT_MAX[hdr_bl_width], "block length does not fit its header type"
        groups = []
        for g in node["groups"]:
            gt = tagpath + "::" + g["name"]
            dim = self.dim_header(g["dim"])
            w = self.headers[dim]["fields"]["blockLength"][1]
            child = self.level(g, False, gt, w)
            flat = not g["groups"] and not g["data"]
            groups.append(dict(name=g["name"], level=child, dim=dim, tag=self.tag(gt), cpp_tag=gt, flat=flat))
        data = []
        for d in node["data"]:
            dt = self.types[d["type"]]
            lw = PRIMS[dt["elements"][0]["prim"]]
            dtag = tagpath + "::" + d["name"]
            data.append(dict(name=d["name"], len_width=lw, tag=self.tag(dtag), cpp_tag=dtag, elem=dt["elements"][1]["prim"]))
        self.levels[idx] = dict(index=idx, name=node["name"], is_message=is_message, block_length=block, computed=r, fields=fields, groups=groups, data=data, cpp_tag=tagpath, tag=self.tag(tagpath))
        return idx

    def resolve_all(self):
        sch = self.sch
        self.msg_header = self.header_shape(sch["header"])
        blw = self.msg_header["fields"]["blockLength"][1]
        tidw = self.msg_header["fields"]["templateId"][1]
        self.messages = []
        for i, m in enumerate(sch["messages"]):
            m["_id"] = i + 1
            assert m["_id"] <= UINT_MAX[tidw]
            li = self.level(m, True, "::%s::schema::messages::%s" % (self.pkg, m["name"]), blw)
            self.levels[li]["template_id"] = m["_id"]
            self.messages.append(li)
        # make sure every public composite has a shape too (for visit of composite fields)
        for t in sch["types"]:
            if t["k"] == "composite" and t["name"] not in self.header_index and not self._is_vardata(t):
                self.comp_shape(t, self.type_tag_of(t))

    @staticmethod
    def _is_vardata(t):
        return len(t["elements"]) == 2 and t["elements"][1]["name"] == "varData"

    # ------------------------------------------------------------------ XML
    def xml(self):
        sch = self.sch
        out = ['<?xml version="1.0" encoding="UTF-8"?>',
               '<sbe:messageSchema xmlns:sbe="http://fixprotocol.io/2016/sbe" package="%s" id="%d" version="%d" byteOrder="%s" headerType="%s" description="a &quot;quoted&quot; \\ backslashed {braced} 100%% description: it&apos;s text, not code" semanticVersion="1.0 &quot;rc&quot;\\">' % (self.pkg, sch["id"], sch["version"], sch["byte_order"], sch["header"]["name"]),
               "  <types>"]
        for t in [sch["header"]] + sch["types"]:
            self._xml_enc(t, out, 2)
        out.append("  </types>")
        for m in sch["messages"]:
            attrs = 'name="%s" id="%d" description="msg &quot;%s&quot; \\n" semanticType="t&apos;\\"' % (m["name"], m["_id"], m["name"])
            if m["_bl"] is not None:
                attrs += ' blockLength="%d"' % m["_bl"]
            out.append("  <sbe:message %s>" % attrs)
            self._xml_members(m, out, 2)
            out.append("  </sbe:message>")
        out.append("</sbe:messageSchema>")
        return "\n".join(out) + "\n"

    def _off(self, e):
        return ' offset="%d"' % e["_abs"] if e.get("_explicit") and e.get("_abs") is not None else ""

    def _xml_enc(self, e, out, ind):
        p = "  " * ind
        k = e["k"]
        if "_layout" not in e and k == "composite":
            self.composite_layout(e)
        if k == "type":
            a = 'name="%s" primitiveType="%s"' % (e["name"], e["prim"])
            if e["length"] != 1:
                a += ' length="%d"' % e["length"]
            if e["presence"] != "required":
                a += ' presence="%s"' % e["presence"]
            if e.get("max_value") is not None:
                a += ' maxValue="%d"' % e["max_value"]
            a += self._off(e)
            if e["presence"] == "constant":
                out.append("%s<type %s>%s</type>" % (p, a, e["const"]))
            else:
                out.append("%s<type %s/>" % (p, a))
        elif k == "enum":
            out.append('%s<enum name="%s" encodingType="%s"%s>' % (p, e["name"], e["enc"], self._off(e)))
            for n, v in e["values"]:
                out.append('%s  <validValue name="%s">%s</validValue>' % (p, n, v))
            out.append("%s</enum>" % p)
        elif k == "set":
            out.append('%s<set name="%s" encodingType="%s"%s>' % (p, e["name"], e["enc"], self._off(e)))
            for n, v in e["choices"]:
                out.append('%s  <choice name="%s">%s</choice>' % (p, n, v))
            out.append("%s</set>" % p)
        elif k == "ref":
            out.append('%s<ref name="%s" type="%s"%s/>' % (p, e["name"], e["type"], self._off(e)))
        elif k == "composite":
            out.append('%s<composite name="%s"%s>' % (p, e["name"], self._off(e)))
            for c in e["elements"]:
                self._xml_enc(c, out, ind + 1)
            out.append("%s</composite>" % p)

    def _xml_members(self, node, out, ind):
        p = "  " * ind
        fid = [0]

        def nid():
            fid[0] += 1
            return fid[0]

        for f in node["fields"]:
            a = 'name="%s" id="%d" type="%s"' % (f["name"], nid(), f["type"])
            if f["presence"]:
                a += ' presence="%s"' % f["presence"]
            if f.get("_abs") is not None:
                a += ' offset="%d"' % f["_abs"]
            out.append("%s<field %s/>" % (p, a))
        for g in node["groups"]:
            a = 'name="%s" id="%d" dimensionType="%s"' % (g["name"], nid(), g["dim"])
            if g["_bl"] is not None:
                a += ' blockLength="%d"' % g["_bl"]
            out.append("%s<group %s>" % (p, a))
            self._xml_members(g, out, ind + 1)
            out.append("%s</group>" % p)
        for d in node["data"]:
            out.append('%s<data name="%s" id="%d" type="%s"/>' % (p, d["name"], nid(), d["type"]))

    def shape(self):
        return dict(name=self.sch["name"], pkg=self.pkg, big=self.sch["byte_order"] == "bigEndian", schema_id=self.sch["id"], version=self.sch["version"],
                    msg_header=self.msg_header, dim_headers=self.headers, composites=self.comp_shapes, levels=self.levels, messages=self.messages, tags=self.tag_ids, valuesets=self.valuesets)
