"""Schema IR for the wire engine: hand-written corner schemas (one per structural
feature) and schemas drawn from a seed. Stdlib only; deterministic (own PRNG,
no hash-order dependence)."""

PRIMS = {
    "char": 1, "int8": 1, "uint8": 1, "int16": 2, "uint16": 2, "int32": 4,
    "uint32": 4, "int64": 8, "uint64": 8, "float": 4, "double": 8,
}
UINTS = {1: "uint8", 2: "uint16", 4: "uint32", 8: "uint64"}
UINT_MAX = {1: 254, 2: 65534, 4: 4294967294, 8: 18446744073709551614}


class Rng:
    """splitmix64-based; identical on every Python version / hash seed."""

    def __init__(self, seed):
        self.s = seed & 0xFFFFFFFFFFFFFFFF

    def next(self):
        self.s = (self.s + 0x9E3779B97F4A7C15) & 0xFFFFFFFFFFFFFFFF
        z = self.s
        z = ((z ^ (z >> 30)) * 0xBF58476D1CE4E5B9) & 0xFFFFFFFFFFFFFFFF
        z = ((z ^ (z >> 27)) * 0x94D049BB133111EB) & 0xFFFFFFFFFFFFFFFF
        return z ^ (z >> 31)

    def below(self, n):
        return self.next() % n if n else 0

    def range(self, lo, hi):
        return lo + self.below(hi - lo + 1)

    def chance(self, num, den):
        return self.below(den) < num

    def pick(self, seq):
        return seq[self.below(len(seq))]


# ---------------------------------------------------------------- IR nodes
def T(name, prim, length=1, presence="required", const=None, offset=None):
    return dict(k="type", name=name, prim=prim, length=length, presence=presence, const=const, offset=offset)


def E(name, enc, values, offset=None):
    return dict(k="enum", name=name, enc=enc, values=values, offset=offset)


def S(name, enc, choices, offset=None):
    return dict(k="set", name=name, enc=enc, choices=choices, offset=offset)


def C(name, elements, offset=None):
    return dict(k="composite", name=name, elements=elements, offset=offset)


def R(name, type_name, offset=None):
    return dict(k="ref", name=name, type=type_name, offset=offset)


def F(name, type_name, presence=None, offset=None, value_ref=None):
    return dict(name=name, type=type_name, presence=presence, offset=offset, value_ref=value_ref)


def G(name, dim, fields=(), groups=(), data=(), block_length=None):
    return dict(name=name, dim=dim, fields=list(fields), groups=list(groups), data=list(data), block_length=block_length)


def D(name, type_name):
    return dict(name=name, type=type_name)


def M(name, fields=(), groups=(), data=(), block_length=None):
    return dict(name=name, fields=list(fields), groups=list(groups), data=list(data), block_length=block_length)


def header(name="messageHeader", bl=2, tid=2, sid=2, ver=2, order=None, gaps=None, extra=None, ref_bl=None, counters=False):
    """Message header composite. order: permutation of member names; gaps: {member: extra offset};
    extra: list of extra T(...) members; ref_bl: name of a public type to <ref> as blockLength."""
    mem = {
        "blockLength": T("blockLength", UINTS[bl]),
        "templateId": T("templateId", UINTS[tid]),
        "schemaId": T("schemaId", UINTS[sid]),
        "version": T("version", UINTS[ver]),
    }
    if ref_bl:
        mem["blockLength"] = R("blockLength", ref_bl)
    if counters:
        mem["numGroups"] = T("numGroups", "uint16")
        mem["numVarDataFields"] = T("numVarDataFields", "uint8")
    names = order or list(mem)
    for n in mem:
        if n not in names:
            names.append(n)
    els = []
    for n in names:
        if gaps and n in gaps:
            mem[n]["offset"] = "+%d" % gaps[n]
        els.append(mem[n])
        for x in (extra or {}).get(n, []):
            els.append(x)
    return C(name, els)


def dimension(name, bl=2, num=2, order=("blockLength", "numInGroup"), gap=None, counters=False, ref_num=None):
    mem = {"blockLength": T("blockLength", UINTS[bl]), "numInGroup": T("numInGroup", UINTS[num])}
    if ref_num:
        mem["numInGroup"] = R("numInGroup", ref_num)
    if counters:
        mem["numGroups"] = T("numGroups", "uint8")
        mem["numVarDataFields"] = T("numVarDataFields", "uint16")
    names = list(order) + [n for n in mem if n not in order]
    if gap:
        mem[gap[0]]["offset"] = "+%d" % gap[1]
    return C(name, [mem[n] for n in names])


def vardata(name, lw=4, elem="uint8"):
    return C(name, [T("length", UINTS[lw]), T("varData", elem, length=0)])


def schema(name, byte_order, hdr, types, messages, sid=1, version=0):
    """hdr: composite node from header(); types: list of nodes. Offsets / block lengths
    written as "+k" mean "k bytes more than the minimum" and are resolved by layout."""
    return dict(name=name, byte_order=byte_order, header=hdr, types=types, messages=messages, id=sid, version=version)


# ------------------------------------------------------------ corner cases
def corner_schemas():
    out = []
    # 1. the conventional layout, nested groups and data at every level (msg26-like)
    common = [
        dimension("groupSizeEncoding"),
        vardata("varDataEncoding"),
        T("u32req", "uint32"),
        T("u32opt", "uint32", presence="optional"),
        E("numbers", "uint8", [("One", 1), ("Two", 2)]),
        S("options", "uint8", [("A", 0), ("B", 2)]),
        T("str16", "char", length=16),
        C("compA", [T("number", "uint32"), T("arr", "uint8", length=3), E("en", "uint16", [("X", 7)]), S("st", "uint16", [("c12", 12), ("c0", 0), ("c15", 15)]), R("again", "u32opt")]),
        T("zero0", "uint8", length=0),
        C("zcomp", [T("kind", "uint8"), T("mark", "char", length=0), T("name", "char", length=4), R("tail", "zero0"), T("crc", "uint32")]),
        T("kc", "uint8", presence="constant", const="9"),
    ]
    lvl_fields = [F("builtin", "uint32"), F("number", "u32req"), F("enumeration", "numbers"), F("set", "options"), F("array", "str16"), F("composite", "compA")]
    out.append(schema("conv", "littleEndian", header(), common, [
        M("m0", lvl_fields, [G("group", "groupSizeEncoding", lvl_fields, [G("group", "groupSizeEncoding")], [D("data", "varDataEncoding")])], [D("data", "varDataEncoding")]),
        M("m1", [F("number", "uint32")], [G("group", "groupSizeEncoding", [F("number", "uint32")])], [D("data", "varDataEncoding")]),
        M("m2", [], [], []),
        M("m3", [], [], [D("d1", "varDataEncoding"), D("d2", "varDataEncoding")]),
        # zero-length array members inside a composite, inline and through a <ref> (appended: earlier
        # message indices, and with them the committed regression plans, stay as they were)
        M("m4", [F("frame", "zcomp"), F("after", "uint16")], [G("group", "groupSizeEncoding", [F("frame", "zcomp")])], [D("data", "varDataEncoding")]),
        # views (composite, array) behind a gap left by an explicit offset, as the last thing in the buffer:
        # last field of a flat message, and last field of the last entry of the last group
        M("m5", [F("a", "uint8"), F("c", "compA", offset="+3")], [], []),
        M("m6", [F("a", "uint8"), F("s", "str16", offset="+5"), F("z", "zero0", offset="+2")], [], []),
        M("m7", [F("k", "uint16")], [G("g", "groupSizeEncoding", [F("a", "uint8"), F("c", "compA", offset="+2")]), G("h", "groupSizeEncoding", [F("s", "str16", offset="+7")])], []),
        # levels whose *declared* fields end with a constant: the last encoded field is not the last declared one
        # (message without anything behind the block; flat group; nested group; reserved space behind the fields)
        M("m8", [F("a", "uint16"), F("k", "kc")], [], []),
        M("m9", [F("a", "uint8"), F("k1", "kc"), F("b", "u32opt"), F("k2", "kc")],
          [G("flat", "groupSizeEncoding", [F("x", "uint16"), F("k", "kc")], [], [], block_length="+3"),
           G("nest", "groupSizeEncoding", [F("y", "numbers"), F("k", "kc")], [], [D("d", "varDataEncoding")])], [], block_length="+2"),
    ]))
    # 2. big-endian; reordered header with a gap, ref-typed uint64 blockLength, counters;
    #    dimensions uint8/uint32 (with offset) and uint64/uint64; data lengths uint8 and uint64
    out.append(schema("bigcorner", "bigEndian",
                      header("hdr", tid=1, sid=4, ver=8, order=["version", "templateId", "blockLength", "schemaId"], gaps={"blockLength": 2}, ref_bl="BL64", counters=True),
                      [
                          T("BL64", "uint64"),
                          T("Cnt32", "uint32"),
                          dimension("dim_8_32", bl=1, num=4, order=("numInGroup", "blockLength"), gap=("blockLength", 3), ref_num="Cnt32"),
                          dimension("dim_64_64", bl=8, num=8, counters=True),
                          vardata("data8", 1, "char"),
                          vardata("data64", 8),
                          T("cst", "uint16", presence="constant", const="77"),
                          T("zero", "char", length=0),
                          C("outer", [T("a", "int16"), C("inner", [T("x", "uint8"), T("y", "double")]), R("c", "cst"), T("z", "int64", offset="+5")]),
                          S("s16", "uint16", [("b0", 0), ("b9", 9), ("b15", 15)]),
                          S("s32", "uint32", [("b31", 31), ("b1", 1), ("b17", 17)]),
                          S("s64", "uint64", [("lo", 0), ("hi", 63), ("mid", 33)]),
                          E("e16", "uint16", [("A", 258), ("B", 65534)]),
                          E("e32", "uint32", [("A", 16909060), ("B", 1)]),
                          T("txt3", "char", length=3),
                          T("opt16", "int16", presence="optional"),
                      ],
                      [
                          M("big0", [F("f0", "int16", offset="+2"), F("k", "cst"), F("f1", "outer", offset="+2"), F("f2", "float", offset="+1")],
                            [G("g0", "dim_8_32", [F("a", "uint8"), F("z", "zero"), F("b", "int32", offset="+2")],
                               [G("only_group", "dim_64_64", [], [G("leaf", "dim_8_32", [F("v", "uint16")])])],
                               [D("text", "data8")], block_length="+2"),
                             G("hollow", "dim_64_64")],
                            [D("blob", "data64"), D("note", "data8")], block_length="+3"),
                          M("big1", [], [G("g", "dim_64_64", [F("q", "double")])], []),
                          M("big2", [F("only", "uint64")]),
                          # reserved space: entries without members / with constants only but an explicit blockLength
                          M("big3", [F("k", "cst")],
                            [G("reserved", "dim_64_64", [], [], [], block_length="+6"),
                             G("konly", "dim_8_32", [F("k", "cst")], [], [], block_length="+4"),
                             G("outer2", "dim_8_32", [F("a", "uint8")], [G("reserved_in", "dim_64_64", [], [], [], block_length="+3")], [D("t", "data8")])],
                            [D("tail", "data8")], block_length="+5"),
                          # multi-byte members in *last* position of a block (the cursor accessors of a last field are
                          # generated separately), and fields whose declared presence sbeppc overrides from the type
                          M("big4", [F("a", "uint8"), F("sc", "s16", presence="constant"), F("nc", "Cnt32", presence="constant"), F("s", "s16")],
                            [G("g", "dim_8_32", [F("x", "uint16"), F("s", "s32")]),
                             G("h", "dim_8_32", [F("e", "e16")], [], [], block_length="+2"),
                             G("i", "dim_64_64", [F("c", "outer")])],
                            [D("d", "data8")]),
                          M("big5", [F("x", "uint8"), F("e", "e32")],
                            [G("g", "dim_8_32", [F("s", "s64")]),
                             G("arr", "dim_8_32", [F("a", "uint8"), F("t", "txt3")]),
                             G("o", "dim_8_32", [F("b", "uint8"), F("n", "opt16")], [], [D("t", "data8")]),
                             G("f", "dim_8_32", [F("d", "double")])],
                            [], block_length="+1"),
                          M("big6", [F("s", "s64")]),
                      ]))
    # 3. tiny dimension types: uint8/uint8 dims, uint8 header blockLength, uint16 data length
    out.append(schema("tiny", "littleEndian", header("h8", bl=1, tid=1, sid=1, ver=1),
                      [dimension("d88", 1, 1), dimension("d16_8", 2, 1), vardata("v16", 2), vardata("v8", 1),
                       E("ce", "char", [("A", "A"), ("B", "B")]), S("s64", "uint64", [("hi", 63), ("lo", 0), ("mid", 31), ("mid2", 32)]), S("s32", "uint32", [("b31", 31)])],
                      [
                          M("t0", [F("c", "char"), F("e", "ce"), F("s", "s64"), F("o", "int8", presence="optional")],
                            [G("a", "d88", [F("x", "uint8")], [], [D("p", "v8")]), G("b", "d16_8", [F("y", "s32")])],
                            [D("q", "v16")]),
                          M("t1", [], [G("z", "d88", [], [], [])], [D("w", "v8")]),
                          M("t2", [], [G("outer", "d88", [], [G("inner", "d16_8", [F("i", "int16")], [], [D("dd", "v8")])], [])], []),
                          # counters whose *schema* range is narrower than what the wire carries: numInGroup and length
                          # types with a declared maxValue of 2 / 3 (the geometry comes from the buffer, not from the schema)
                          M("t3", [F("k", "uint8")], [G("lim", "dmax", [F("x", "uint16")]), G("limn", "dmax", [F("y", "uint8")], [], [D("e", "v8")])], [D("cap", "vmax")]),
                      ]))
    out[-1]["types"] += [C("dmax", [T("blockLength", "uint8"), dict(T("numInGroup", "uint8"), max_value=2)]), C("vmax", [dict(T("length", "uint8"), max_value=3), T("varData", "uint8", length=0)])]
    # 4. wide counters: uint32 numInGroup with uint16 blockLength, uint64 data length, custom block lengths
    out.append(schema("wide", "bigEndian", header("hw", bl=4, tid=4, sid=2, ver=2),
                      [dimension("d16_32", 2, 4), dimension("d32_16", 4, 2), vardata("v64", 8, "char"), vardata("v32", 4),
                       C("pt", [T("x", "int32"), T("y", "int32")])],
                      [
                          M("w0", [F("p", "pt"), F("t", "uint64", offset="+4")], [G("g", "d16_32", [F("p", "pt")], [], [D("s", "v64")], block_length="+4")], [D("u", "v32"), D("v", "v64")], block_length="+4"),
                          M("w1", [F("a", "uint16")], [G("g1", "d32_16", [F("b", "uint8")]), G("g2", "d16_32", [F("c", "double")], [G("g3", "d32_16")], [])], []),
                      ]))
    return out


# --------------------------------------------------------------- seeded IR
def random_schema(seed, idx):
    r = Rng(seed * 1000003 + idx)
    name = "r%d" % idx
    uid = [0]

    def nm(p):
        uid[0] += 1
        return "%s%d" % (p, uid[0])

    big = r.chance(1, 2)
    w = lambda: r.pick([1, 2, 2, 4, 8])  # noqa: E731
    hdr_order = ["blockLength", "templateId", "schemaId", "version"]
    if r.chance(1, 2):
        # shuffle deterministically
        for i in range(3, 0, -1):
            j = r.below(i + 1)
            hdr_order[i], hdr_order[j] = hdr_order[j], hdr_order[i]
    gaps = {r.pick(hdr_order): r.range(1, 3)} if r.chance(1, 3) else {}
    hdr = header("hdr", bl=r.pick([2, 2, 4, 8, 1]), tid=r.pick([1, 2, 4]), sid=r.pick([1, 2, 4]), ver=r.pick([1, 2, 8]), order=hdr_order, gaps=gaps, counters=r.chance(1, 4))
    bl_w = PRIMS[[e for e in hdr["elements"] if e["name"] == "blockLength"][0]["prim"]]
    types = []
    dims = []
    for i in range(r.range(1, 3)):
        d = dimension(nm("dim"), bl=w(), num=w(), order=("blockLength", "numInGroup") if r.chance(2, 3) else ("numInGroup", "blockLength"), gap=("numInGroup", r.range(1, 2)) if r.chance(1, 5) else None, counters=r.chance(1, 6))
        types.append(d)
        dims.append(d)
    datas = []
    for i in range(r.range(1, 2)):
        v = vardata(nm("vd"), w(), r.pick(["uint8", "char"]))
        types.append(v)
        datas.append(v)
    scal = []
    for i in range(r.range(1, 4)):
        p = r.pick(list(PRIMS))
        t = T(nm("t"), p, presence=r.pick(["required", "required", "optional"]))
        types.append(t)
        scal.append(t)
    arrs = []
    for i in range(r.range(0, 2)):
        t = T(nm("arr"), r.pick(["char", "uint8", "int8"]), length=r.pick([0, 1, 2, 5, 17]))
        types.append(t)
        arrs.append(t)
    enums = []
    for i in range(r.range(0, 2)):
        enc = r.pick(["uint8", "char", "uint16", "uint32"])
        vals = [("A", "A"), ("B", "C")] if enc == "char" else [("v%d" % k, k * 3 + 1) for k in range(r.range(1, 3))]
        t = E(nm("en"), enc, vals)
        types.append(t)
        enums.append(t)
    sets = []
    for i in range(r.range(0, 2)):
        enc = r.pick(["uint8", "uint16", "uint32", "uint64"])
        bits = PRIMS[enc] * 8
        chosen = sorted({r.below(bits) for _ in range(r.range(1, 4))})
        if r.chance(1, 2):
            chosen.reverse()  # declaration order need not be bit order
        elif len(chosen) > 2 and r.chance(1, 2):
            chosen[0], chosen[1] = chosen[1], chosen[0]
        t = S(nm("st"), enc, [("c%d" % b, b) for b in chosen])
        types.append(t)
        sets.append(t)
    consts = []
    if r.chance(1, 2):
        t = T(nm("k"), r.pick(["uint8", "int32", "uint64"]), presence="constant", const=str(r.range(1, 100)))
        types.append(t)
        consts.append(t)
    comps = []
    for i in range(r.range(0, 2)):
        els = []
        for j in range(r.range(1, 4)):
            kind = r.below(8)
            off = None
            if kind == 0 and scal:
                els.append(R(nm("m"), r.pick(scal)["name"]))
            elif kind == 1 and comps:
                els.append(R(nm("m"), r.pick(comps)["name"]))
            elif kind == 2:
                els.append(C(nm("m"), [T(nm("i"), r.pick(list(PRIMS))) for _ in range(r.range(1, 2))]))
            elif kind == 3 and consts:
                els.append(R(nm("m"), r.pick(consts)["name"]))
            elif kind == 4 and (enums or sets):
                els.append(R(nm("m"), r.pick(enums + sets)["name"]))
            elif kind == 6 and arrs:
                els.append(R(nm("m"), r.pick(arrs)["name"]))
            elif kind == 7:
                els.append(T(nm("m"), r.pick(["char", "uint8"]), length=r.pick([0, 0, 1, 3])))
            else:
                els.append(T(nm("m"), r.pick(list(PRIMS)), presence=r.pick(["required", "optional"])))
            if r.chance(1, 6):
                els[-1]["offset"] = "+%d" % r.range(1, 3)  # relative gap, resolved by layout
        c = C(nm("cp"), els)
        types.append(c)
        comps.append(c)

    def fields(maxn, max_block):
        fs = []
        budget = max_block
        for i in range(r.range(0, maxn)):
            kind = r.below(8)
            if kind <= 1:
                f = F(nm("f"), r.pick(list(PRIMS)), presence=r.pick([None, None, "optional"]))
            elif kind == 2 and scal:
                f = F(nm("f"), r.pick(scal)["name"])
            elif kind == 3 and arrs:
                f = F(nm("f"), r.pick(arrs)["name"])
            elif kind == 4 and enums:
                f = F(nm("f"), r.pick(enums)["name"])
            elif kind == 5 and sets:
                f = F(nm("f"), r.pick(sets)["name"])
            elif kind == 6 and comps:
                f = F(nm("f"), r.pick(comps)["name"])
            elif kind == 7 and consts:
                f = F(nm("f"), r.pick(consts)["name"])
            else:
                f = F(nm("f"), r.pick(["uint8", "uint16", "int64"]))
            if r.chance(1, 7):
                f["offset"] = "+%d" % r.range(1, 4)
            fs.append(f)
        return fs

    def group(depth, parent_bl_max):
        dim = r.pick(dims)
        dbl = PRIMS[[e for e in dim["elements"] if e["name"] == "blockLength"][0]["prim"]]
        fs = fields(3 if dbl == 1 else 4, UINT_MAX[dbl])
        gs = [group(depth + 1, 0) for _ in range(r.range(0, 2 if depth < 2 else 0))] if depth < 3 and r.chance(1, 2) else []
        ds = [D(nm("d"), r.pick(datas)["name"]) for _ in range(r.range(0, 2))] if r.chance(1, 2) else []
        g = G(nm("g"), dim["name"], fs, gs, ds)
        if r.chance(1, 5):
            g["block_length"] = "+%d" % r.range(1, 5)
        return g

    msgs = []
    for i in range(r.range(2, 4)):
        fs = fields(3 if bl_w == 1 else 5, UINT_MAX[bl_w])
        gs = [group(1, 0) for _ in range(r.range(0, 2))]
        ds = [D(nm("d"), r.pick(datas)["name"]) for _ in range(r.range(0, 2))]
        m = M(nm("msg"), fs, gs, ds)
        if r.chance(1, 5):
            m["block_length"] = "+%d" % r.range(1, 6)
        msgs.append(m)
    return schema(name, "bigEndian" if big else "littleEndian", hdr, types, msgs, sid=r.range(1, 200), version=r.range(0, 5))


def v2_of(sch, seed):
    """A later version of the schema, as the SBE extension rules allow: the same types, messages,
    groups and data members, with one to three new fields of built-in primitive types *appended* to
    the block of every message and of every group (and the schema version raised). A peer compiled
    from it produces images whose blocks are longer than the ones `sch` was compiled with."""
    import copy
    v2 = copy.deepcopy(sch)
    v2["name"] = sch["name"] + "v2"
    v2["version"] = sch["version"] + 1
    r = Rng(seed * 1000003 + sum(ord(c) for c in sch["name"]) + 17)
    uid = [0]
    types = {t["name"]: t for t in [v2["header"]] + v2["types"]}

    def width_of(comp, member):
        e = [x for x in comp["elements"] if x["name"] == member][0]
        if e["k"] == "ref":
            e = types[e["type"]]
        return PRIMS[e["prim"]]

    def extend(level, bl_width):
        # stay far below what the blockLength field can express (layout asserts on overflow)
        small = bl_width == 1
        for _ in range(r.range(1, 2 if small else 3)):
            uid[0] += 1
            level["fields"].append(F("v2f%d" % uid[0], r.pick(["uint8", "char", "int8"] if small else ["uint8", "uint16", "int32", "uint64", "double", "char"])))
        for g in level["groups"]:
            extend(g, width_of(types[g["dim"]], "blockLength"))

    for m in v2["messages"]:
        extend(m, width_of(v2["header"], "blockLength"))
    return v2


V2_RANDOM = {"quick": 4, "thorough": 16}


def corpus(tier, seed):
    out = corner_schemas()
    n = 8 if tier == "quick" else 56
    for i in range(n):
        out.append(random_schema(seed, i))
    return out
