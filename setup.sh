#!/bin/sh
# Offline setup: nothing to fetch; checks build what they need from /repo on demand.
set -e
cd "$(dirname "$0")"
mkdir -p build evidence replays
exit 0
