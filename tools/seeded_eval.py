#!/usr/bin/env python3
"""Sensitivity run: apply /verif/seeded/<id>/patch.diff to /repo's working tree, run
the quick check of the property it breaks (or the ones given), undo the patch.
usage: tools/seeded_eval.py <seeded id> [property ...]   (never run while `vp check` is taking its copy)"""
import json
import os
import subprocess
import sys
import time

VERIF = os.path.dirname(os.path.dirname(os.path.abspath(__file__)))


def main():
    sid = sys.argv[1]
    d = os.path.join(VERIF, "seeded", sid)
    meta = json.load(open(os.path.join(d, "meta.json")))
    props = sys.argv[2:] or [meta["property"]]
    # --worktree: apply the change in a scratch worktree of /repo HEAD and point the checks at it
    # (VERIF_REPO), so that /repo itself - and any `vp run` using it - is left alone. Default: the
    # procedure of the brief (apply to /repo's working tree, run, undo).
    use_wt = "--worktree" in sys.argv
    props = [p for p in props if p != "--worktree"] or [meta["property"]]
    env = dict(os.environ)
    wt = None
    if use_wt:
        wt = "/tmp/se_wt_%s_%d" % (sid, os.getpid())
        subprocess.run(["git", "-C", "/repo", "worktree", "add", "--detach", wt, "HEAD"], check=True, capture_output=True)
        r = subprocess.run(["git", "-C", wt, "apply", os.path.join(d, "patch.diff")])
        if r.returncode != 0:
            # the patch no longer applies to /repo HEAD (a later fix: commit touched the same lines): rebase it
            # (git apply --3way in a worktree, keep the agent's file as patch.original.diff) and evaluate again
            subprocess.run(["git", "-C", "/repo", "worktree", "remove", "--force", wt], capture_output=True)
            print("patch does not apply to /repo HEAD: %s" % sid)
            return 2
        env["VERIF_REPO"] = wt
    else:
        st = subprocess.run(["git", "-C", "/repo", "status", "--porcelain", "--untracked-files=no"], capture_output=True, text=True).stdout.strip()
        if st:
            print("refusing: /repo has local modifications:\n" + st)
            return 2
        subprocess.run(["git", "-C", "/repo", "apply", os.path.join(d, "patch.diff")], check=True)
    results = {}
    t_start = time.time() - 1
    try:
        for p in props:
            t0 = time.time()
            r = subprocess.run([os.path.join(VERIF, "check"), p, "quick"], capture_output=True, text=True, cwd=VERIF, env=env)
            lines = [l for l in r.stdout.split("\n") if l.startswith("VIOLATION") or l.startswith("  signature") or l.startswith("  detail") or l.startswith("BUILD-FAILURE") or l.startswith("HARNESS")]
            results[p] = dict(exit=r.returncode, seconds=round(time.time() - t0, 1), lines=lines[:12])
            print("== %s with seeded change %s: exit %d (%.0fs)" % (p, sid, r.returncode, time.time() - t0))
            for l in lines[:12]:
                print("   " + l[:300])
    finally:
        if use_wt:
            subprocess.run(["git", "-C", "/repo", "worktree", "remove", "--force", wt], capture_output=True)
        else:
            subprocess.run(["git", "-C", "/repo", "checkout", "--", "."], check=True)
        # replays written while the change was applied describe the mutant, not the tree: move them next to it
        rep = os.path.join(VERIF, "replays")
        for f in os.listdir(rep):
            # only what this evaluation wrote (another check may be running in /verif at the same time)
            if f.endswith(".plan") and any(f.startswith(p + "-") for p in props) and os.path.getmtime(os.path.join(rep, f)) >= t_start:
                os.replace(os.path.join(rep, f), os.path.join(d, "caught-" + f))
    meta.setdefault("eval", {}).update(results)
    json.dump(meta, open(os.path.join(d, "meta.json"), "w"), indent=1)
    return 0


if __name__ == "__main__":
    sys.exit(main())
