#!/usr/bin/env python3
"""Sensitivity run: apply /verif/seeded/<id>/patch.diff to /repo's working tree, run
the quick check of the property it breaks (or the ones given), undo the patch.
usage: tools/seeded_eval.py <seeded id> [property ...]   (never run while `vp check` is taking its copy)"""
import json
import os
import subprocess
import sys
import time

VERIF = os.path.dirname(os.path.dirname(os.path.abspath(__file__)))


def main():
    sid = sys.argv[1]
    d = os.path.join(VERIF, "seeded", sid)
    meta = json.load(open(os.path.join(d, "meta.json")))
    props = sys.argv[2:] or [meta["property"]]
    st = subprocess.run(["git", "-C", "/repo", "status", "--porcelain", "--untracked-files=no"], capture_output=True, text=True).stdout.strip()
    if st:
        print("refusing: /repo has local modifications:\n" + st)
        return 2
    subprocess.run(["git", "-C", "/repo", "apply", os.path.join(d, "patch.diff")], check=True)
    results = {}
    try:
        for p in props:
            t0 = time.time()
            r = subprocess.run([os.path.join(VERIF, "check"), p, "quick"], capture_output=True, text=True, cwd=VERIF)
            lines = [l for l in r.stdout.split("\n") if l.startswith("VIOLATION") or l.startswith("  signature") or l.startswith("  detail") or l.startswith("BUILD-FAILURE") or l.startswith("HARNESS")]
            results[p] = dict(exit=r.returncode, seconds=round(time.time() - t0, 1), lines=lines[:12])
            print("== %s with seeded change %s: exit %d (%.0fs)" % (p, sid, r.returncode, time.time() - t0))
            for l in lines[:12]:
                print("   " + l[:300])
    finally:
        subprocess.run(["git", "-C", "/repo", "checkout", "--", "."], check=True)
        # replays written while the change was applied describe the mutant, not the tree: move them next to it
        rep = os.path.join(VERIF, "replays")
        for f in os.listdir(rep):
            if f.endswith(".plan"):
                os.replace(os.path.join(rep, f), os.path.join(d, "caught-" + f))
    meta.setdefault("eval", {}).update(results)
    json.dump(meta, open(os.path.join(d, "meta.json"), "w"), indent=1)
    return 0


if __name__ == "__main__":
    sys.exit(main())
