#!/usr/bin/env python3
"""Writes the sub-agent task files for one round of seeded changes:
tools/agent_prompts.py <round> <prop> [<prop> ...]  ->  work/agents/r<round>_<prop>.txt, scratch worktrees under /tmp"""
import glob, json, os, subprocess, sys
V = os.path.dirname(os.path.dirname(os.path.abspath(__file__)))
HINTS = {
 'C03': "Areas nobody has touched yet: get_header()/dimension accessors of extended groups, const views and views converted from mutable ones, cursor_subrange with explicit count on extended nested groups, by-tag access to groups/data behind extended blocks, size_bytes of a nested group entry vs. the sum of its parts, data members that follow several extended groups, big-endian blockLength/numInGroup decoding in one accessor family only, 8-bit or 64-bit blockLength types, composites as last field before an extended tail, init_cursor on an entry obtained by random access, visit_children started on an entry.",
 'C04': "Areas nobody has touched yet: cursor copy / assignment / conversion (cursor<byte> -> cursor<const byte>) keeping the position, cursor_ops::skip on composite/array fields, init_dont_move on groups/data, enum/set/optional fields through dont_move, group headers read through a cursor after fill_group_header, cursor_range over an empty group followed by another member, entries of nested groups whose last member is a data member, levels whose only field is a zero-length array, explicit offsets inside group entries, the checked-build position assertions for data members (non-first), cursor accessors of fields of built-in 1-byte types, const cursor obtained from a const view combined with mutable view accessors.",
 'C06': "Areas nobody has touched yet: group views whose first entry holds data members, data length types of 8 or 16 bits at the very end of the buffer, messages with several top-level groups where an early flat group is empty, entries whose block is shorter than the compiled one followed by nested groups, header types with non-default member order or gaps, size_bytes_checked on a view of a nested group, counters numGroups/numVarDataFields in headers, the interplay of the flat-group shortcut with a following data member, very small n (0..header size), arithmetic on size_t near SIZE_MAX for 64-bit counters, C++11/14-only code paths.",
 'C09': "Areas nobody has touched yet: the tag/traits generators (traits_generator.hpp, tags), name mangling and C++ keyword handling, sinceVersion/deprecated handling, semanticVersion, duplicate message ids or names, composites that reference themselves or each other through <ref> (cycles), offsets/blockLength arithmetic overflow in the validator (huge offset + size), enum/set value range checks for every width and for char, choices above the bit width, dimension/varData composite shape checks, messages without fields, --schema-name and --inject-include values with unusual characters, very long attribute values, output path handling.",
 'C10': "Areas nobody has touched yet: nested group iterator increments and end() comparisons under truncation, composite members nested two deep with explicit offsets, message get_header()/fill_message_header on buffers shorter than the header, group get_header() members, entry views of nested groups reached after ++ (their end pointer), static arrays: assign_string with the eos modes, assign_range/assign(il) preconditions, fill, strlen_r; data views: erase/insert/resize checks, pop_back, front/back on empty data (precondition asserts), cursor_ops::skip / dont_move on groups and data under truncation, size_bytes(group) reading nested headers, make_view/make_const_view, views over const bytes converted from mutable ones at group/composite level.",
 'C13': "Areas nobody has touched yet: rbegin/rend and const access after mutations, erase(pos) at the last element, erase of a middle range followed by insert at the same place, insert(pos, il) with an empty list, assign from a range that aliases the array itself, assign_string with a string longer than the current size, assign_range with a non-contiguous / sized / unsized range (C++20 ranges path), resize(n, value) after clear, default_init followed by push_back, length types of 8 and 64 bits (carry / truncation), big-endian length read-modify-write in only one operation, operations on arrays obtained through raw(), size_bytes after every mutation, max_size boundary.",
 'C19': "Areas nobody has touched yet: visit_children(entry) started with a fresh cursor on an entry obtained by random access, visit of nested composites (composite inside composite, refs to composites), enums with char encoding or with a single value, unknown enum values at the type's extremes, sets of 8/16 bits with choices at the top bit, get_by_tag returning views (composite/group/data) and set_by_tag for optional (nullable) fields and enums, visitors whose callbacks return non-bool (void) - the documented 'void means continue' rule, on_field for array-typed fields, const vs mutable views, cursor position handed to on_group/on_entry callbacks, is_visitable_view / is_cursor_visitable_view traits used for dispatch.",
 'C20': "Areas nobody has touched yet: emission order and what happens between files, directory creation for nested output paths, schema-name override in paths, file names for types/messages that are C++ keywords or clash after mangling, the top-level schema header's include list (ordering from unordered containers, duplicates), --inject-include text, trailing/missing newline, content that depends on the absolute/relative form of the input path or of the output dir, anything depending on environment (locale, cwd, HOME, time), exit status mapping for warnings, behaviour when stdout is closed or full, reading the schema via a relative xi:include while writing output elsewhere.",
}
T = '''You are helping to evaluate how well a verification harness detects regressions in the C++ project OleksandrKvl/sbepp (header-only FIX Simple Binary Encoding runtime `sbepp/src/sbepp/sbepp.hpp` plus the schema compiler `sbeppc`, sources under `sbeppc/src/sbepp/sbeppc/`). You work ONLY inside your own scratch git worktree of the project at {wt} and write your deliverables to {out}. Do not read or touch /repo, /verif or any other directory outside {wt}, {out} and fresh temp dirs you create; you know nothing about the harness and must not look for it.

The property under study (JSON, also in {out}/property.json):

{prop}

TASK: produce TWO different, independent source changes ("A" and "B") to the project (runtime header and/or sbeppc sources) such that each change
 1. BREAKS the property above (makes its statement false for some input / sequence / configuration),
 2. still compiles, and the project's whole existing test suite still passes with it,
 3. looks like a plausible maintenance slip or well-meant refactoring/optimisation (not sabotage, no dead `if (magic)`),
 4. needs something SPECIFIC to manifest: an unusual-but-valid schema shape, a particular multi-step call sequence, a particular buffer length or header value, a specific build mode (checked/unchecked, C++ standard), a particular fault or interleaving of I/O outcomes, or two cooperating sites that each look fine alone. Changes that ordinary use exposes at once are not interesting.
The two changes must sit in different code areas and fail for different reasons.
{emphasis}
{avoid}{hint}
How to build and test (everything is offline; all tools are installed; the machine is shared, keep to -j4):
  cmake -G Ninja -S {wt} -B {wt}/_build -DCMAKE_BUILD_TYPE=RelWithDebInfo -DSBEPP_BUILD_TESTS=ON -DSBEPP_DEV_MODE=ON -DSBEPP_SEPARATE_TESTS=ON -DSBEPP_BUILD_SBEPPC=ON -DCMAKE_CXX_FLAGS=-Wno-error -DCMAKE_PREFIX_PATH=/root/miniconda
  cmake --build {wt}/_build -j4
  ctest --test-dir {wt}/_build -j4 --timeout 900
(The full build takes a while - up to half an hour on the shared machine; be patient, use long timeouts (e.g. 3600000 ms), and build once on the pristine tree first so that later builds are incremental.) The sbeppc binary ends up at {wt}/_build/sbeppc/sbeppc (check with find). Generated headers: `sbeppc --output-dir <dir> schema.xml`, compile user code with `-I {wt}/sbepp/src -I <dir>`. Checked builds of user code: `-DSBEPP_ENABLE_ASSERTS_WITH_HANDLER` (you then define `void sbepp::assertion_failed(char const* expr, char const* function, char const* file, long line)`); unchecked: `-DSBEPP_DISABLE_ASSERTS`.

DELIVERABLES, for X in A, B, under {out}/X/ :
  patch.diff   - `git diff` of the change against the pristine worktree HEAD (must apply with `git apply` to a clean checkout of HEAD; only the change itself, no test edits)
  demo/run.sh  - `bash run.sh <repo root>`: builds whatever it needs from <repo root> (incl. sbeppc if the demo needs it: configure+build ONLY the sbeppc target into a temp dir, or reuse an sbeppc binary found under <repo root>/_build when it exists and is newer than the sources), runs a small program / schema, exits 0 if the property holds and non-zero if it is violated. It must pass on the pristine tree and fail with your change. Put any schema/.cpp files next to it in demo/ (no build outputs).
  notes.md     - what the change is, why the tests cannot see it, exactly what is needed for it to manifest, and the commands you ran (pristine demo result, ctest summary line with the change, demo result with the change).
Work on A first: apply, build, run the FULL ctest (it must report 100% passed), run the demo, save the deliverables, then `git checkout -- .` in the worktree and do B the same way. Leave the worktree clean (no uncommitted changes) when done; leave the _build directory in place. If the existing tests fail with a change, pick another change. In your final answer give a five-line summary per change (files touched, what breaks, what is needed to manifest, ctest result, demo results), plus anything odd you noticed about the UNMODIFIED project's behaviour with respect to this property (possible genuine defects, with the exact input that shows them).'''
def main():
    rnd = sys.argv[1]
    by = {}
    for d in sorted(glob.glob(os.path.join(V, 'seeded', '*', 'meta.json'))):
        m = json.load(open(d)); by.setdefault(m['property'], []).append(m['change'])
    props = {json.loads(l)['id']: json.loads(l) for l in open(os.path.join(V, 'properties.jsonl'))}
    os.makedirs(os.path.join(V, 'work', 'agents'), exist_ok=True)
    for p in sys.argv[2:]:
        wt = '/tmp/mutant%s_wt_%s' % (rnd, p); out = '/tmp/mutant%s_out_%s' % (rnd, p)
        os.makedirs(out, exist_ok=True)
        if not os.path.exists(wt):
            subprocess.run(['git', '-C', '/repo', 'worktree', 'add', '--detach', wt, 'HEAD'], check=True, capture_output=True)
        pj = json.dumps(props[p], indent=1)
        open(os.path.join(out, 'property.json'), 'w').write(pj)
        strict = os.environ.get('AGENT_PROMPT_STRICT', '1') == '1'  # strict: only the property text and the worktree (nothing derived from /verif)
        avoid = '' if strict else 'These changes were already proposed for this property by others; do NOT repeat them or close variants of them:\n' + '\n'.join(' - ' + c for c in by.get(p, [])) + '\n\n'
        s = T.format(wt=wt, out=out, prop=pj, avoid=avoid, hint='' if strict else HINTS[p] + '\n', emphasis=os.environ.get('AGENT_PROMPT_EMPHASIS', ''))
        if os.environ.get('AGENT_PROMPT_ONE') == '1':
            s = s.replace('produce TWO different, independent source changes ("A" and "B")', 'produce ONE source change ("A")').replace('The two changes must sit in different code areas and fail for different reasons.\n', '').replace('DELIVERABLES, for X in A, B, under', 'DELIVERABLES, for X = A, under').replace('then `git checkout -- .` in the worktree and do B the same way. ', 'then `git checkout -- .` in the worktree. ').replace('give a five-line summary per change', 'give a five-line summary of the change')
        open(os.path.join(V, 'work', 'agents', 'r%s_%s.txt' % (rnd, p)), 'w').write(s)
        print('wrote', p)
main()
