#!/bin/sh
# Sensitivity selftest: every seeded change must be caught by the quick check of the property it breaks.
# Default: each change is applied in its own scratch worktree of /repo HEAD (--worktree), LANES evaluations at a
# time (default 3), so /repo itself is never touched. SEEDED_EVAL_FLAGS= (empty) selects the procedure of the brief
# instead (apply to /repo's working tree, run, undo; one at a time; never together with `vp check` / `vp run`).
# usage: tools/seeded_all.sh [regex over ids]        e.g. tools/seeded_all.sh '^C09-'
cd "$(dirname "$0")/.."
FLAGS=${SEEDED_EVAL_FLAGS---worktree}
LANES=${LANES:-3}
[ -z "$FLAGS" ] && LANES=1
PAT=${1:-.}
LOG=$(mktemp /tmp/seeded_all.XXXXXX)
ls seeded | grep -E "$PAT" | while read id; do [ -f "seeded/$id/patch.diff" ] && echo "$id"; done |
  xargs -P "$LANES" -I{} sh -c 'id={}; if grep -q "\"obsolete\"" seeded/$id/meta.json; then echo "obsolete $id"; exit 0; fi; out=$(./tools/seeded_eval.py $id '"$FLAGS"' 2>&1); if echo "$out" | grep -q "exit 1"; then echo "caught  $id"; else echo "MISSED  $id"; echo "$out" | grep -v conda | head -5; fi' | tee "$LOG"
ok=$(grep -c '^caught' "$LOG"); miss=$(grep -c '^MISSED' "$LOG"); obs=$(grep -c '^obsolete' "$LOG"); rm -f "$LOG"
echo "seeded changes caught: $ok, missed: $miss, obsolete: $obs"
[ "$miss" -eq 0 ]
