#!/bin/sh
# Sensitivity selftest: every seeded change must be caught by the quick check of the property it breaks.
# Applies each patch to /repo's working tree in turn (never run together with `vp check` / `vp run`).
cd "$(dirname "$0")/.."
ok=0; miss=0
for d in seeded/*/; do
    id=$(basename "$d")
    [ -f "$d/patch.diff" ] || continue
    out=$(./tools/seeded_eval.py "$id" ${SEEDED_EVAL_FLAGS:-} 2>&1)
    if echo "$out" | grep -q "exit 1"; then ok=$((ok+1)); echo "caught  $id"; else miss=$((miss+1)); echo "MISSED  $id"; echo "$out" | head -5; fi
done
echo "seeded changes caught: $ok, missed: $miss"
[ $miss -eq 0 ]
