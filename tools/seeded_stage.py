#!/usr/bin/env python3
"""Stage a sub-agent's deliverable as /verif/seeded/<id>/ : tools/seeded_stage.py <src dir> <id> <property> <round> <change> <needs>"""
import json, os, shutil, sys
src, sid, prop, rnd, change, needs = sys.argv[1:7]
V = os.path.dirname(os.path.dirname(os.path.abspath(__file__)))
d = os.path.join(V, "seeded", sid)
os.makedirs(d, exist_ok=True)
shutil.copy(os.path.join(src, "patch.diff"), os.path.join(d, "patch.diff"))
if os.path.exists(os.path.join(src, "notes.md")):
    shutil.copy(os.path.join(src, "notes.md"), os.path.join(d, "notes.md"))
if os.path.exists(os.path.join(d, "demo")):
    shutil.rmtree(os.path.join(d, "demo"))
shutil.copytree(os.path.join(src, "demo"), os.path.join(d, "demo"), ignore=shutil.ignore_patterns("_build*", "build*", "*.o", "gen*", "out*", "a.out"))
meta = dict(id=sid, property=prop, round=int(rnd), source=("independent sub-agent (given only the property text and a scratch worktree)" if int(rnd) >= 10 else "independent sub-agent (given the property text, one-line descriptions of the earlier changes to avoid, a list of untouched areas, and a scratch worktree)"), change=change, needs_to_manifest=needs)
json.dump(meta, open(os.path.join(d, "meta.json"), "w"), indent=1)
print("staged", d)
