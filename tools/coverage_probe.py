#!/usr/bin/env python3
"""One-off measurement, not a check: which lines of sbepp.hpp do the wire drivers execute?
Builds two clang coverage flavours of the wire engine (checked / unchecked, C++20, -O0), runs N seeds per
property with each, merges the profiles and prints the lines of sbepp.hpp that were instantiated but never
executed, and (second list) statement-like lines without any count (template code nobody instantiated).
usage: tools/coverage_probe.py [N]   -> build/work/coverage/sbepp.hpp.txt and a summary on stdout"""
import os, re, subprocess, sys
sys.path.insert(0, os.path.join(os.path.dirname(os.path.dirname(os.path.abspath(__file__))), "lib"))
import orch, eng_wire
N = int(sys.argv[1]) if len(sys.argv) > 1 else 1500
bins, d = eng_wire.build("quick", ["cov_checked", "cov_unchecked"])
out = os.path.join(orch.BUILD_ROOT, "work", "coverage")
subprocess.run(["rm", "-rf", out]); os.makedirs(out)
first = orch.first_run_seed()
procs = []
for fl, b in bins.items():
    for prop in ("C04", "C06", "C10", "C19", "C03", "C13"):
        if prop == "C10" and "unchecked" in fl:
            continue
        extra, _ = eng_wire.known_arg(prop)
        env = dict(os.environ, LLVM_PROFILE_FILE=os.path.join(out, "%s-%s-%%m-%%p.profraw" % (fl, prop)))
        wd = os.path.join(out, "w-%s-%s" % (fl, prop)); os.makedirs(wd)
        procs.append(subprocess.Popen([b, "run", "--prop", prop, "--tier", "quick", "--from", str(first), "--count", str(N), "--outdir", wd] + list(extra), env=env, stdout=subprocess.DEVNULL, stderr=subprocess.DEVNULL))
for p in procs:
    p.wait()
raws = [os.path.join(out, f) for f in os.listdir(out) if f.endswith(".profraw")]
prof = os.path.join(out, "all.profdata")
subprocess.run(["llvm-profdata-14", "merge", "-sparse", "-o", prof] + raws, check=True)
hdr = os.path.join(orch.REPO, "sbepp/src/sbepp/sbepp.hpp")
objs = []
for b in bins.values():
    objs += ["-object", b]
r = subprocess.run(["llvm-cov-14", "show", "-instr-profile=" + prof] + objs[1:] + [hdr], stdout=subprocess.PIPE, text=True, errors="replace")
open(os.path.join(out, "sbepp.hpp.txt"), "w").write(r.stdout)
zero, none = [], []
for line in r.stdout.split("\n"):
    m = re.match(r"\s*(\d+)\|\s*([0-9.kMG]*)\|(.*)", line)
    if not m:
        continue
    no, cnt, text = int(m.group(1)), m.group(2), m.group(3)
    st = text.strip()
    if cnt == "0":
        zero.append((no, st))
    elif cnt == "" and re.search(r"\breturn\b|SBEPP_ASSERT|SBEPP_SIZE_CHECK|[^=!<>]=[^=]|\+\+|--|\(\);", st) and not st.startswith(("//", "*", "/*", "#", "template", "using", "typename")):
        none.append((no, st))
print("lines instantiated but never executed: %d; statement-like lines never instantiated: %d (see %s)" % (len(zero), len(none), out))
open(os.path.join(out, "zero.txt"), "w").write("\n".join("%d: %s" % z for z in zero))
open(os.path.join(out, "none.txt"), "w").write("\n".join("%d: %s" % z for z in none))
