#!/bin/sh
# Independent confirmation of a seeded change: in a scratch worktree of /repo HEAD,
# (1) the demo passes without the change, (2) with the change everything builds and the
# whole repo test suite passes, (3) the demo fails. usage: tools/seeded_verify.sh <dir with patch.diff and demo/run.sh>
set -u
D=$(cd "$1" && pwd)
WT=$(mktemp -d /tmp/sv_XXXXXX)
rmdir "$WT"
git -C /repo worktree add --detach "$WT" HEAD >/dev/null 2>&1 || exit 2
trap 'git -C /repo worktree remove --force "$WT" >/dev/null 2>&1' EXIT
echo "== demo on pristine tree"
( cd "$D/demo" && bash ./run.sh "$WT" ) > "$WT/demo_before.log" 2>&1; B=$?
echo "   exit $B"
( cd "$WT" && git apply "$D/patch.diff" ) || { echo "patch does not apply"; exit 2; }
echo "== build + ctest with the change"
cmake -G Ninja -S "$WT" -B "$WT/_build" -DCMAKE_BUILD_TYPE=RelWithDebInfo -DSBEPP_BUILD_TESTS=ON -DSBEPP_DEV_MODE=ON -DSBEPP_SEPARATE_TESTS=ON -DSBEPP_BUILD_SBEPPC=ON -DCMAKE_CXX_FLAGS=-Wno-error -DCMAKE_PREFIX_PATH=/root/miniconda > "$WT/cfg.log" 2>&1 || { tail -5 "$WT/cfg.log"; exit 2; }
cmake --build "$WT/_build" -j${JOBS:-12} > "$WT/build.log" 2>&1 || { tail -20 "$WT/build.log"; echo "BUILD FAILED"; exit 3; }
ctest --test-dir "$WT/_build" -j8 --timeout 900 > "$WT/ctest.log" 2>&1; C=$?
grep -E "tests passed|tests failed" "$WT/ctest.log"
echo "== demo with the change"
( cd "$D/demo" && bash ./run.sh "$WT" ) > "$WT/demo_after.log" 2>&1; A=$?
echo "   exit $A"; tail -3 "$WT/demo_after.log"
echo "SUMMARY demo_before=$B ctest=$C demo_after=$A"
[ $B -eq 0 ] && [ $C -eq 0 ] && [ $A -ne 0 ]
