"""Orchestrator shared by all checks: content-hashed builds from /repo's working
tree, worker pools over seed ranges, the violation gate (same-seed fingerprint,
minimisation, fresh-process replay), known findings, evidence files."""
import concurrent.futures
import hashlib
import json
import os
import re
import shutil
import subprocess
import sys
import time

VERIF = os.path.dirname(os.path.dirname(os.path.abspath(__file__)))
REPO = os.environ.get("VERIF_REPO", "/repo")
BUILD_ROOT = os.path.join(VERIF, "build")
NCPU = min(16, os.cpu_count() or 4)


def log(*a):
    print(*a, flush=True)


def sh(cmd, **kw):
    return subprocess.run(cmd, shell=isinstance(cmd, str), stdout=subprocess.PIPE, stderr=subprocess.STDOUT, text=True, errors="replace", **kw)


def file_hash(paths, extra=""):
    h = hashlib.sha256()
    h.update(extra.encode())
    for root in paths:
        if os.path.isfile(root):
            files = [root]
        else:
            files = []
            for d, dn, fn in os.walk(root):
                dn.sort()
                for f in sorted(fn):
                    files.append(os.path.join(d, f))
        for f in files:
            h.update(f.encode())
            with open(f, "rb") as fh:
                h.update(fh.read())
    return h.hexdigest()


def repo_hash():
    return file_hash([os.path.join(REPO, "sbepp/src"), os.path.join(REPO, "sbeppc/src")])


class BuildFailure(Exception):
    pass


class Builder:
    """Artifacts live in build/<tag>-<hash of inputs>/; a hit is reused, old
    hashes of the same tag are pruned."""

    def __init__(self):
        os.makedirs(BUILD_ROOT, exist_ok=True)

    def dir_for(self, tag, inputs_hash):
        d = os.path.join(BUILD_ROOT, "%s-%s" % (tag, inputs_hash[:16]))
        return d

    def prune(self, tag, keep):
        # Other hashes of the same tag are removed once they have not been used for two hours: a concurrent
        # check (a sensitivity run against a scratch worktree, a `vp run`) may be executing out of one of them.
        now = time.time()
        for e in os.listdir(BUILD_ROOT):
            p = os.path.join(BUILD_ROOT, e)
            if not e.startswith(tag + "-") or p == keep:
                continue
            try:
                last_used = max(os.path.getmtime(p), os.path.getmtime(os.path.join(p, ".ok")) if os.path.exists(os.path.join(p, ".ok")) else 0)
            except OSError:
                continue
            if now - last_used > 2 * 3600:
                shutil.rmtree(p, ignore_errors=True)
        # ... and never more than a dozen build directories of one kind, whatever their age: a session of
        # sensitivity runs builds one per seeded change (a third session let the directory grow to 106 GB, at which
        # point the sandbox could no longer be snapshotted). The least recently used go first; 20 minutes without use
        # are the least a directory gets (nothing here runs a single batch for longer out of one build).
        rest = []
        for e in os.listdir(BUILD_ROOT):
            p = os.path.join(BUILD_ROOT, e)
            if e.startswith(tag + "-") and p != keep:
                try:
                    rest.append((max(os.path.getmtime(p), os.path.getmtime(os.path.join(p, ".ok")) if os.path.exists(os.path.join(p, ".ok")) else 0), p))
                except OSError:
                    pass
        rest.sort()
        while len(rest) > 12 and now - rest[0][0] > 20 * 60:
            shutil.rmtree(rest.pop(0)[1], ignore_errors=True)

    def build(self, tag, inputs_hash, jobs, tolerate=None):
        """jobs: function(dir) -> list of (output name, command list) run in
        parallel, or a list of stages of such lists; a stage may also be a
        function(failed) -> list, evaluated when it is reached. tolerate(name,
        output) -> bool: a failing job for which it returns True is recorded
        in <dir>/failures.json instead of ending the build. Returns dir."""
        d = self.dir_for(tag, inputs_hash)
        stamp = os.path.join(d, ".ok")
        if os.path.exists(stamp):
            try:
                os.utime(stamp, None)  # "in use now"
            except OSError:
                pass
            return d
        shutil.rmtree(d, ignore_errors=True)
        os.makedirs(d)
        self.prune(tag, d)
        t0 = time.time()
        stages = jobs(d)
        if stages and not isinstance(stages[0], list) and not callable(stages[0]):
            stages = [stages]
        failed = {}
        for stage in stages:
            if callable(stage):
                stage = stage(failed)
            with concurrent.futures.ThreadPoolExecutor(NCPU) as ex:
                futs = {ex.submit(sh, cmd, cwd=d): (name, cmd) for name, cmd in stage}
                for f in concurrent.futures.as_completed(futs):
                    name, cmd = futs[f]
                    r = f.result()
                    if r.returncode != 0:
                        if tolerate and tolerate(name, r.stdout):
                            failed[name] = dict(cmd=cmd if isinstance(cmd, str) else " ".join(cmd), output=r.stdout[-12000:])
                            continue
                        raise BuildFailure("building %s failed:\n$ %s\n%s" % (name, cmd if isinstance(cmd, str) else " ".join(cmd), r.stdout[-6000:]))
        json.dump(failed, open(os.path.join(d, "failures.json"), "w"), indent=1)
        open(stamp, "w").write("%.1f\n" % (time.time() - t0))
        log("[build] %s built in %.1fs" % (tag, time.time() - t0))
        return d


class Batch:
    def __init__(self):
        self.fps = {}
        self.violations = []  # dicts: seed, fp, path, signature, detail
        self.counters = {}
        self.tuples = set()
        self.samples = []
        self.known = {}  # signature -> count
        self.known_first = {}
        self.runs = 0
        self.worker_deaths = 0
        self.wall = 0.0
        self.cut_short = False

    def merge(self, o):
        self.fps.update(o.fps)
        self.violations += o.violations
        for k, v in o.counters.items():
            self.counters[k] = self.counters.get(k, 0) + v
        self.tuples |= o.tuples
        self.samples += o.samples
        for k, v in o.known.items():
            self.known[k] = self.known.get(k, 0) + v
        for k, v in o.known_first.items():
            self.known_first.setdefault(k, v)
        self.runs += o.runs
        self.worker_deaths += o.worker_deaths
        self.wall += o.wall


def _parse_lines(lines, b, known=()):
    last_start = None
    ended = False
    for line in lines:
        if not line:
            continue
        tag, _, rest = line.partition(" ")
        if tag == "START":
            last_start = int(rest)
        elif tag == "R":
            s, fp = rest.split()[:2]
            b.fps[int(s)] = fp
            b.runs += 1
            last_start = None
        elif tag == "V":
            head, _, detail = rest.partition(" | ")
            s, fp, path, sig = head.split(" ", 3)
            b.fps[int(s)] = fp
            if sig in known:
                # a crash-class outcome (the worker reports it from a signal handler and ends itself) whose
                # signature is a listed known finding: counted like the in-process ones ("K" lines)
                b.known[sig] = b.known.get(sig, 0) + 1
                b.known_first.setdefault(sig, int(s))
            else:
                b.violations.append(dict(seed=int(s), fp=fp, path=path, signature=sig, detail=detail))
            b.runs += 1
            last_start = None
        elif tag == "K":
            s, _, sig = rest.partition(" ")
            b.known[sig] = b.known.get(sig, 0) + 1
            b.known_first.setdefault(sig, int(s))
        elif tag == "C":
            k, _, v = rest.rpartition(" ")
            b.counters[k] = b.counters.get(k, 0) + int(v)
        elif tag == "T":
            b.tuples.add(rest)
        elif tag == "S":
            b.samples.append(rest)
        elif tag == "END" or tag == "RESTART":
            ended = True
    return last_start, ended


def run_batch(binary, prop, tier, first, count, outdir, workers=NCPU, extra=(), timeout=None, env=None):
    """Runs seeds first..first+count-1 striped over `workers` processes.
    A worker that dies is restarted after the seed it announced; the death is
    recorded as a CRASH violation of that seed."""
    os.makedirs(outdir, exist_ok=True)
    t0 = time.time()
    b = Batch()
    extra = list(extra)
    known_sigs = set(extra[extra.index("--known") + 1].split(",")) if "--known" in extra else set()
    workers = max(1, min(workers, count))
    # (from, count) per stripe
    pending = []
    for w in range(workers):
        n = (count - w + workers - 1) // workers
        if n > 0:
            pending.append((first + w, n))
    procs = []

    def start(frm, n):
        cmd = [binary, "run", "--prop", prop, "--tier", tier, "--from", str(frm), "--count", str(n), "--stride", str(workers), "--outdir", outdir] + list(extra)
        p = subprocess.Popen(cmd, stdout=subprocess.PIPE, stderr=subprocess.PIPE, text=True, errors="replace", env=env)
        return p

    active = [(start(f, n), f, n) for f, n in pending]
    deadline = t0 + timeout if timeout else None
    while active:
        nxt = []
        for p, frm, n in active:
            try:
                left = None if deadline is None else max(1, deadline - time.time())
                out, err = p.communicate(timeout=left)
            except subprocess.TimeoutExpired:
                p.kill()
                out, err = p.communicate()
                raise RuntimeError("worker exceeded the batch wall-clock cap; partial output: %s" % out[-500:])
            runs_before = b.runs
            last_start, ended = _parse_lines(out.split("\n"), b, known_sigs)
            # Outcomes that cost a whole CPU budget each (the code under test did not return): once a batch has
            # seen a few dozen of them the verdict is clear, and running the remaining seeds would only take
            # budget x seeds of wall time. The stripes that ended this way are not restarted any more.
            slow = sum(1 for v in b.violations if re.search(r"timeout|TIMEOUT|HANG", v["signature"])) + sum(c for k, c in b.known.items() if re.search(r"timeout|TIMEOUT|HANG", k))
            if slow > 24 and not b.cut_short:
                b.cut_short = True
                log("[batch] %d runs did not return within their CPU budget: the remaining seeds of the stripes that end this way are not run" % slow)
            if p.returncode == 98 and ended:
                # the worker ended itself after reporting a crash-class outcome of its last run
                b.worker_deaths += 1
                done = b.runs - runs_before
                if n - done > 0 and not b.cut_short:
                    nf = frm + done * workers
                    nxt.append((start(nf, n - done), nf, n - done))
            elif p.returncode != 0 or not ended:
                b.worker_deaths += 1
                if last_start is None:
                    raise RuntimeError("worker died outside a run (rc=%s): %s" % (p.returncode, (err or "")[-2000:]))
                sig = "CRASH:signal%d" % (-p.returncode) if p.returncode < 0 else "CRASH:exit%d" % p.returncode
                path = os.path.join(outdir, "viol-%s-%d.plan" % (prop, last_start))
                g = sh([binary, "gen", "--prop", prop, "--tier", tier, "--seed", str(last_start)] + list(extra), env=env)
                with open(path, "w") as fh:
                    fh.write(g.stdout + "seed %d\nexpect %s\n" % (last_start, sig))
                b.fps[last_start] = "crash"
                b.violations.append(dict(seed=last_start, fp="crash", path=path, signature=sig, detail="worker died: " + (err or "")[-400:].replace("\n", " ")))
                b.runs += 1
                done = (last_start - frm) // workers + 1
                if n - done > 0:
                    nf = last_start + workers
                    nxt.append((start(nf, n - done), nf, n - done))
        active = nxt
    b.wall = time.time() - t0
    return b


def exec_plan(binary, path, extra=(), env=None, timeout=600):
    """Fresh-process execution of a plan. Returns (violation, signature, fingerprint, output)."""
    r = subprocess.run([binary, "exec", path] + list(extra), stdout=subprocess.PIPE, stderr=subprocess.PIPE, text=True, errors="replace", env=env, timeout=timeout)
    m = re.search(r"^RESULT violation=(\d) fingerprint=(\w+) signature=(.*)$", r.stdout, re.M)
    if r.returncode < 0:
        return True, "CRASH:signal%d" % (-r.returncode), "crash", r.stdout + r.stderr
    if not m:
        if r.returncode not in (0, 1):
            return True, "CRASH:exit%d" % r.returncode, "crash", r.stdout + r.stderr
        return False, "", "", r.stdout + r.stderr
    return m.group(1) == "1", m.group(3).strip(), m.group(2), r.stdout


def load_known(prop):
    """known_findings.jsonl: only entries with status 'known' suppress; 'fixed' never does."""
    out = {}
    path = os.path.join(VERIF, "known_findings.jsonl")
    if os.path.exists(path):
        for line in open(path):
            line = line.strip()
            if not line:
                continue
            e = json.loads(line)
            if e.get("property") == prop and e.get("status") == "known":
                out[e["signature"]] = e
    return out


def gate_and_report(prop, binary, batch, outdir, extra=(), env=None, max_reports=3, tier="quick"):
    """For each distinct violation signature: re-run the seed (fingerprint must
    match), minimise, replay the minimised plan in a fresh process. Prints the
    VIOLATION lines. Returns (n_violations, harness_error)."""
    seen = {}
    for v in sorted(batch.violations, key=lambda v: v["seed"]):
        seen.setdefault(v["signature"], v)
    nviol = 0
    harness_error = False
    os.makedirs(os.path.join(VERIF, "replays"), exist_ok=True)
    no_verdict = {k: v for k, v in batch.counters.items() if k.startswith("harness.HARNESS") and v}
    if no_verdict:
        log("HARNESS-ERROR property=%s: plans ended without a verdict for a reason of the harness's own: %s" % (prop, ", ".join("%s x%d" % (k[8:], v) for k, v in sorted(no_verdict.items()))))
        harness_error = True
    for sig, v in list(seen.items())[:max_reports]:
        seed = v["seed"]
        # (a) same seed, same fingerprint
        if not sig.startswith("CRASH"):
            rb = run_batch(binary, prop, tier, seed, 1, outdir + "/gate", workers=1, extra=extra, env=env)
            again = [x for x in rb.violations if x["seed"] == seed]
            if not again or again[0]["fp"] != v["fp"] or again[0]["signature"] != sig:
                log("HARNESS-ERROR property=%s seed=%d: violation `%s` did not repeat with the same fingerprint" % (prop, seed, sig))
                harness_error = True
                continue
        # (b) minimise
        final = os.path.join(VERIF, "replays", "%s-%d.plan" % (prop, seed))
        if re.search(r"timeout|TIMEOUT|HANG", sig):
            # every attempt of the minimiser would cost a whole CPU budget: the plan is reported as generated
            shutil.copy(v["path"], final)
            m = subprocess.CompletedProcess([], 0, stdout="MIN skipped (the code under test does not return: each attempt costs a whole CPU budget)")
        else:
            m = subprocess.run([binary, "min", v["path"], final] + list(extra), stdout=subprocess.PIPE, stderr=subprocess.STDOUT, text=True, errors="replace", env=env)
        if m.returncode != 0 or not os.path.exists(final):
            log("HARNESS-ERROR property=%s seed=%d: minimiser could not reproduce `%s`: %s" % (prop, seed, sig, m.stdout[-300:]))
            harness_error = True
            continue
        # (c) fresh-process replay
        viol, sig2, fp2, out = exec_plan(binary, final, extra=extra, env=env)
        if not viol or sig2 != sig:
            log("HARNESS-ERROR property=%s seed=%d: minimised plan does not replay (`%s` vs `%s`)" % (prop, seed, sig, sig2))
            harness_error = True
            continue
        with open(final, "a") as fh:
            fh.write("# %s\n# detail: %s\n" % (m.stdout.strip().replace("\n", " "), v["detail"]))
        nviol += 1
        log("VIOLATION property=%s replay=%s" % (prop, final))
        log("  signature=%s seed=%d %s" % (sig, seed, m.stdout.strip()))
        log("  detail: %s" % v["detail"])
    if len(seen) > max_reports:
        log("  (%d further distinct violation signatures not minimised: %s)" % (len(seen) - max_reports, ", ".join(list(seen)[max_reports:max_reports + 8])))
        nviol += len(seen) - max_reports
    return nviol, harness_error


def write_evidence(prop, tier, seed, level, coverage, wall, violations, assumptions):
    # evidence describes /repo itself: a run pointed at a scratch copy (VERIF_REPO: sensitivity runs against a
    # seeded change, background runs on a snapshot) writes its report under build/work instead
    evdir = os.path.join(VERIF, "evidence") if os.path.realpath(REPO) == "/repo" else os.path.join(BUILD_ROOT, "work", "evidence-scratch")
    os.makedirs(evdir, exist_ok=True)
    ev = dict(property_id=prop, tier=tier, seed=seed, level=level, coverage=coverage, assumptions=assumptions, wall_s=round(wall, 2), violations=violations)
    path = os.path.join(evdir, prop + ".json")
    tmp = path + ".tmp"
    with open(tmp, "w") as fh:
        json.dump(ev, fh, indent=1, sort_keys=True)
    os.replace(tmp, path)
    return path


def base_seed():
    try:
        return int(os.environ.get("VERIF_SEED", "1"))
    except ValueError:
        return 1


def first_run_seed():
    # run seeds = VERIF_SEED * 2^32 + i: disjoint ranges for different VERIF_SEEDs
    return (base_seed() & 0x7fffffff) * (1 << 32) + 1


def scratch_dir(prop):
    # one per process: two checks of the same property may run at once (a sensitivity run against a scratch
    # worktree next to a run on /repo); directories of processes that are gone are removed
    root = os.path.join(BUILD_ROOT, "work")
    os.makedirs(root, exist_ok=True)
    for e in os.listdir(root):
        m = re.match(r"^(C\d\d)-(\d+)$", e)
        if m and not os.path.exists("/proc/%s" % m.group(2)):
            shutil.rmtree(os.path.join(root, e), ignore_errors=True)
    d = os.path.join(root, "%s-%d" % (prop, os.getpid()))
    shutil.rmtree(d, ignore_errors=True)
    os.makedirs(d)
    import atexit
    atexit.register(lambda: shutil.rmtree(d, ignore_errors=True))
    return d


def run_regressions(prop, binary_for, extra=()):
    """Replays every committed regression plan of this property (minimised
    plans of defects that were fixed): a fixed entry suppresses nothing, so a
    plan that violates again is reported like any other violation.
    binary_for(plan_text) -> path of the binary to run it with."""
    d = os.path.join(VERIF, "regress")
    n = 0
    bad = 0
    if not os.path.isdir(d):
        return 0, 0
    for f in sorted(os.listdir(d)):
        if not f.startswith(prop + "-") or not f.endswith(".plan"):
            continue
        path = os.path.join(d, f)
        viol, sig, fp, outp = exec_plan(binary_for(open(path).read()), path, extra=extra)
        n += 1
        if viol:
            bad += 1
            log("VIOLATION property=%s replay=%s" % (prop, path))
            log("  signature=%s (a previously fixed defect is back)" % sig)
    return n, bad


def determinism_selftest(cases, n=2000):
    """cases: list of (label, binary, prop, tier, extra). Every seed is executed
    twice, once striped over 16 workers and once over 3; the seed -> fingerprint
    maps (and violation signatures) must be identical."""
    report = []
    ok = True
    first = first_run_seed()
    for case in cases:
        label, binary, prop, tier, extra = case[:5]
        first = first_run_seed() + (case[5] if len(case) > 5 else 0)  # optional offset into the seed range
        out = scratch_dir("selftest-" + label)
        a = run_batch(binary, prop, tier, first, n, out, workers=16, extra=extra)
        b = run_batch(binary, prop, tier, first, n, out, workers=3, extra=extra)
        diff = [s for s in a.fps if a.fps[s] != b.fps.get(s)]
        va = sorted((v["seed"], v["signature"]) for v in a.violations)
        vb = sorted((v["seed"], v["signature"]) for v in b.violations)
        same = not diff and len(a.fps) == len(b.fps) == n and va == vb
        ok &= same
        report.append(dict(case=label, seeds=n, identical=same, diverging_seeds=diff[:10], distinct_fingerprints=len(set(a.fps.values()))))
        log("[determinism] %-28s %d seeds x (16 workers, 3 workers): %s (%d distinct fingerprints)" % (label, n, "identical" if same else "DIVERGED %s" % diff[:5], len(set(a.fps.values()))))
    return ok, report
