"""Engine wire: untrusted frames against generated views (C06, C10, C03, C04, C19)."""
import json
import os
import sys
import time

from orch import *  # noqa

GEN = os.path.join(VERIF, "gen")
WIRE = os.path.join(VERIF, "wire")
SIM = os.path.join(VERIF, "sim")

FLAVOURS = {
    # name: (compiler, std, extra flags)
    "unchecked": ("g++", "c++17", ["-O1", "-g", "-DSBEPP_DISABLE_ASSERTS"]),
    "checked": ("g++", "c++17", ["-O1", "-g", "-DSBEPP_ENABLE_ASSERTS_WITH_HANDLER"]),
    # C++23: the bit_cast / ranges / operator<=> paths of sbepp.hpp, std::byte views, unoptimised. (With bit_cast
    # available no byte swap function is used at all: get/set_primitive reverse-copy. The std::byteswap branch is only
    # reachable with SBEPP_HAS_BITCAST overridden to 0: that is what the clang unchecked flavour of the thorough tier does.)
    "unchecked_O0": ("g++", "c++2b", ["-O0", "-g", "-DSBEPP_DISABLE_ASSERTS", "-DWIRE_BYTE=std::byte"]),
    "checked_clang20": ("clang++", "c++20", ["-O1", "-g", "-DSBEPP_ENABLE_ASSERTS_WITH_HANDLER", "-DWIRE_BYTE=unsigned char"]),
    "unchecked_clang20": ("clang++", "c++2b", ["-O1", "-g", "-DSBEPP_DISABLE_ASSERTS", "-DSBEPP_HAS_BITCAST=0"]),  # memcpy + std::byteswap branch
    # not used by any check: tools/coverage_probe.py measures which lines of sbepp.hpp the drivers execute
    "cov_checked": ("clang++", "c++20", ["-O0", "-g", "-fprofile-instr-generate", "-fcoverage-mapping", "-DSBEPP_ENABLE_ASSERTS_WITH_HANDLER", "-DWIRE_BYTE=unsigned char"]),
    "cov_unchecked": ("clang++", "c++20", ["-O0", "-g", "-fprofile-instr-generate", "-fcoverage-mapping", "-DSBEPP_DISABLE_ASSERTS"]),
}


def build_sbeppc():
    h = file_hash([os.path.join(REPO, "sbepp/src"), os.path.join(REPO, "sbeppc/src")], "sbeppc-exe")

    def jobs(d):
        bi = os.path.join(d, "build_info.cpp")
        src = open(os.path.join(REPO, "sbeppc/src/sbepp/sbeppc/build_info.cpp.in")).read().replace("@sbepp_VERSION@", "verif")
        open(bi, "w").write(src)
        inc = ["-I" + os.path.join(REPO, "sbeppc/src"), "-I" + os.path.join(REPO, "sbepp/src")]
        cxx = ["g++", "-std=c++17", "-O1"]
        return [[("main.o", cxx + inc + ["-c", os.path.join(REPO, "sbeppc/src/sbepp/sbeppc/main.cpp"), "-o", "main.o"]),
                 ("build_info.o", cxx + inc + ["-c", bi, "-o", "build_info.o"])],
                [("sbeppc", ["g++", "main.o", "build_info.o", "-lfmt", "-lpugixml", "-o", "sbeppc"])]]

    return os.path.join(Builder().build("sbeppc", h, jobs), "sbeppc")


def corpus_seed():
    return base_seed()


def build(tier, flavours):
    """Returns {flavour: binary path}. Everything is rebuilt from /repo's working tree on a hash miss."""
    sbeppc = build_sbeppc()
    tag_tier = "quick" if tier == "quick" else "thorough"
    h = file_hash([os.path.join(REPO, "sbepp/src"), os.path.join(REPO, "sbeppc/src"), GEN, WIRE, SIM], "wire-%s-%d-%s" % (tag_tier, corpus_seed(), repr(sorted((f, FLAVOURS[f]) for f in flavours))))

    def jobs(d):
        r = sh([sys.executable, os.path.join(GEN, "emit.py"), "--out", d, "--tier", tag_tier, "--seed", str(corpus_seed())], env=dict(os.environ, PYTHONHASHSEED="0"))
        if r.returncode != 0:
            raise BuildFailure("corpus generation failed:\n" + r.stdout[-3000:])
        names = json.load(open(os.path.join(d, "corpus.json")))
        for n in names:
            r = sh([sbeppc, "--output-dir", os.path.join(d, "gen"), os.path.join(d, n + ".xml")])
            if r.returncode != 0:
                raise BuildFailure("sbeppc rejected corpus schema %s (C07/C08 are not claimed here; this is a build failure, not a verdict):\n%s" % (n, r.stdout[-2000:]))
        compile_jobs = []
        links = []
        for fl in flavours:
            cxx, std, flags = FLAVOURS[fl]
            base = [cxx, "-std=" + std] + flags + ["-I" + os.path.join(REPO, "sbepp/src"), "-I" + os.path.join(d, "gen"), "-I" + WIRE]
            objs = []
            for n in names:
                o = "%s_%s.o" % (fl, n)
                compile_jobs.append((o, base + ["-c", os.path.join(d, "drv_%s.cpp" % n), "-o", o]))
                objs.append(o)
            compile_jobs.append((fl + "_main.o", base + ["-c", os.path.join(WIRE, "main.cpp"), "-o", fl + "_main.o"]))
            objs.append(fl + "_main.o")
            links.append((fl, cxx, objs))

        by_name = dict(compile_jobs)

        def retry_stage(failed):
            # a driver TU whose *generated headers* (or sbepp.hpp) do not compile under the driver's full API use
            # is compiled again in its fallback form (plain cursor only, no wrapper / by-tag-cursor routes): the
            # checks can then still examine the schema through everything else, and report the failure
            # (api_failures). The reduced object has another name so that failures.json keeps the original entry.
            return [("reduced_" + o, [a for a in by_name[o][:-1]] [:-1] + ["-DWIRE_REDUCED_API", "-o", "reduced_" + o]) for o in sorted(failed) if o in by_name]

        def link_stage(failed):
            jobs = []
            for fl, cxx, objs in links:
                use = []
                for o in objs:
                    if o not in failed:
                        use.append(o)
                    elif "reduced_" + o not in failed:
                        use.append("reduced_" + o)  # else: left out altogether
                prof = ["-fprofile-instr-generate"] if "-fprofile-instr-generate" in FLAVOURS[fl][2] else []
                jobs.append(("wire_" + fl, [cxx] + prof + use + ["-o", "wire_" + fl]))
            return jobs

        return [compile_jobs, retry_stage, link_stage]

    def tolerate(name, output):
        if name.endswith("_main.o"):
            return False
        if name.startswith("reduced_"):
            return True
        for line in output.split("\n"):
            if ": error:" in line or ": fatal error:" in line:
                path = line.split(":", 1)[0].strip()
                # the first error decides: inside the repository's header or the generated headers -> tolerated
                return os.path.abspath(path).startswith(os.path.abspath(REPO) + os.sep) or "/gen/" in path
        return False

    d = Builder().build("wire-" + tag_tier, h, jobs, tolerate=tolerate)
    return {fl: os.path.join(d, "wire_" + fl) for fl in flavours}, d


# Which statements name the API form a driver TU could not even compile: the words are looked for in the
# compiler's instantiation trace (driver_core function names and sbepp entities).
API_WORDS = {
    "C04": ["cursor_ops", "cursor_wrapper", "cursor_range", "cursor_subrange", "with_wrapper", "cursor_level", "encode_level_cursor", "cursor<"],
    "C19": ["get_by_tag", "set_by_tag", "visit_children", "visit_tag", "Recorder", "sbepp::visit"],
    "C13": ["data_history", "dynamic_array_ref"],
    "C10": [""],  # any accessor, iterator step or container operation of any generated view
}


def api_failures(prop, d):
    """[(flavour, schema, first error line, whole output)] for driver TUs that did not compile although sbeppc
    accepted the schema, restricted to failures that involve an API form the property's statement names."""
    try:
        failed = json.load(open(os.path.join(d, "failures.json")))
    except (OSError, ValueError):
        return []
    out = []
    for name, info in sorted(failed.items()):
        if name.startswith("reduced_"):
            log("[build] ... and neither does the fallback form of %s: the schema is left out of this run" % name[8:])
            continue
        words = API_WORDS.get(prop)
        fl, schema = name[:-2].rsplit("_", 1)
        text = info["output"]
        first = next((l for l in text.split("\n") if ": error:" in l), "")
        log("[build] generated code does not compile: schema %s, flavour %s: %s" % (schema, fl, first.strip()[:300]))
        if words is not None and any(w in text for w in words):
            out.append((fl, schema, first.strip(), text))
    return out


def report_api_failures(prop, d):
    """Prints one VIOLATION per (schema) whose driver could not be compiled; returns their number."""
    seen = set()
    n = 0
    for fl, schema, first, text in api_failures(prop, d):
        if schema in seen:
            continue
        seen.add(schema)
        path = os.path.join(VERIF, "replays", "%s-build-%s.plan" % (prop, schema))
        os.makedirs(os.path.dirname(path), exist_ok=True)
        open(path, "w").write("property %s\nengine wire-build\nflavour %s\nschema %s\nexpect %s:api-does-not-compile\n# %s\n" % (prop, fl, schema, prop, first.replace("\n", " ")[:500]))
        log("VIOLATION property=%s replay=%s" % (prop, path))
        log("  signature=%s:api-does-not-compile schema %s (%s): sbeppc accepted the schema, but a call the statement covers does not compile against the generated headers: %s" % (prop, schema, fl, first[:400]))
        n += 1
    return n


REAL = ["sbepp.hpp (compiled from /repo's working tree)", "every header the sbeppc built from /repo's working tree generates for the corpus schemas (views, accessors, cursor accessors, visit_children bodies, header fillers)"]
STUB = ["the medium delivering a frame (guard-paged arena; truncation, structural-field corruption, byte flips, stale tails)", "the producing peer (independent reference encoder driven by a seeded value tree)", "sbepp::assertion_failed (records and unwinds)", "schema corpus: 4 hand-written corner schemas + schemas drawn from VERIF_SEED"]


def tier_flavours(tier):
    # every wire check of a tier uses the same set so that they share one build
    return ["unchecked", "checked", "unchecked_O0"] if tier == "quick" else ["unchecked", "checked", "unchecked_O0", "unchecked_clang20", "checked_clang20"]


def known_arg(prop):
    k = load_known(prop)
    return (["--known", ",".join(sorted(k))] if k else []), k


def print_known(prop, known, batch):
    for sig, e in sorted(known.items()):
        if batch.known.get(sig):
            log("KNOWN-FINDING: property=%s %s (%d occurrences this run; first at seed %d)" % (prop, e["what"], batch.known[sig], batch.known_first.get(sig, 0)))


def run_c06(tier, args):
    t0 = time.time()
    flavours = tier_flavours(tier)
    bins, d = build(tier, flavours)
    flavours = [f for f in flavours if f != "checked_clang20"]
    out = scratch_dir("C06")
    extra, known = known_arg("C06")
    first = first_run_seed()
    total = Batch()
    nviol = 0
    herr = False
    per = {"quick": {"unchecked": 12000, "checked": 4000, "unchecked_O0": 4000}, "thorough": {"unchecked": 400000, "checked": 100000, "unchecked_O0": 100000, "unchecked_clang20": 100000}}[tier]
    nreg, regbad = run_regressions("C06", lambda t: bins["checked" if "\nbuild checked" in t else "unchecked"], extra=extra)
    nviol += regbad + report_api_failures("C06", d)
    for fl in flavours:
        b = run_batch(bins[fl], "C06", tier, first, per[fl], out, extra=extra)
        log("[C06] %s: %d plans, %d evaluations in %.1fs, %d violating" % (fl, b.runs, b.counters.get("c06.evaluations", 0), b.wall, len(b.violations)))
        v, e = gate_and_report("C06", bins[fl], b, out, extra=extra, tier=tier)
        nviol += v
        herr |= e
        b.tuples = {fl + "|" + t for t in b.tuples}
        total.merge(b)
    print_known("C06", known, total)
    wall = time.time() - t0
    cov = dict(
        evaluations=total.counters.get("c06.evaluations", 0),
        distinct_nontrivial=len(total.tuples),
        rule="one evaluation = size_bytes_checked(view{p,n}, n) on one (frame, fault set, n), run three times (guard page right after byte n-1; n bytes + 64 readable bytes of poison 0x00; same with 0xFF) and compared with the bounded reference walker on the same n bytes. Plans enumerate every truncation point n in [0,N] of a seeded well-formed frame, or every structural field (message/group blockLength, numInGroup, data length) x a boundary-value catalogue x every truncation point (stride 7 + field boundaries for frames over 160 bytes), or explore 1-3 random faults (hostile 64-bit values, byte flips, stale tails, extended blocks) followed by a full truncation sweep, or take a torn encode (F5: a slot holding zeros / ones / another frame / noise, overwritten by the first j writes - or all - of a real producer using random-access setters or the cursor idiom) through a full truncation sweep; message views and group views. distinct = distinct (build, schema, message, view kind, first unmet structural item, outcome class, verdict) tuples",
        plans=total.runs,
        samples=total.samples[:5],
        faults_fired={k[len("fault."):]: v for k, v in sorted(total.counters.items()) if k.startswith("fault.")},
        probes={k: v for k, v in sorted(total.counters.items()) if k.startswith("probe.") or k.startswith("known.")},
        builds=flavours,
        plans_per_hour=int(total.runs / max(wall, 1e-9) * 3600),
        evaluations_per_hour=int(total.counters.get("c06.evaluations", 0) / max(wall, 1e-9) * 3600),
        simulated_time="n/a (no clock); steps = evaluations",
        regression_plans_replayed=nreg,
        known_findings_matched={k: v for k, v in total.known.items()},
        real_components=REAL,
        stub_components=STUB,
        worker_deaths=total.worker_deaths,
    )
    write_evidence("C06", tier, base_seed(), "fault_enumeration", cov, wall, nviol,
                   ["the reference walker (wire/model.hpp, DESIGN appendix B) defines 'the structure the buffer describes'", "'bounded work' is decided as: returns within a 20 s CPU budget per plan", "reads that stay inside [p,p+n) are invisible to a guard page"])
    return 2 if herr else (1 if nviol else 0)


def run_c10(tier, args):
    import eng_dynarr
    t0 = time.time()
    flavours = tier_flavours(tier)
    bins, d = build(tier, flavours)
    out = scratch_dir("C10")
    extra, known = known_arg("C10")
    first = first_run_seed()
    nviol = 0
    herr = False
    nreg, regbad = run_regressions("C10", lambda t: os.path.join(eng_dynarr.build(), "dynarr_checked") if "\nengine dynarr" in t else bins["checked"], extra=extra)
    nviol += regbad + report_api_failures("C10", d)
    total = Batch()
    runs = [("checked", 3000 if tier == "quick" else 60000)]
    if tier != "quick":
        runs.append(("checked_clang20", 20000))
    for fl, n in runs:
        b = run_batch(bins[fl], "C10", tier, first, n, out, extra=extra)
        log("[C10/wire] %s: %d frames, %d op executions in %.1fs, %d violating" % (fl, b.runs, b.counters.get("c10.ops", 0), b.wall, len(b.violations)))
        v, e = gate_and_report("C10", bins[fl], b, out, extra=extra, tier=tier)
        nviol += v
        herr |= e
        b.tuples = {fl + "|" + t for t in b.tuples}
        total.merge(b)
    # capacity / hostile-prefix half on the <data> view (dynarr engine)
    bd, v, e = eng_dynarr.run_c10_capacity(tier, out, first)
    nviol += v
    herr |= e
    bd.tuples = {"dynarr|" + t for t in bd.tuples}
    bd.counters = {"dynarr." + k: v for k, v in bd.counters.items()}
    total.merge(bd)
    print_known("C10", known, total)
    wall = time.time() - t0
    ops = total.counters.get("c10.ops", 0)
    cov = dict(
        evaluations=ops + sum(v for k, v in total.counters.items() if k.startswith("dynarr.op.") and not k.endswith("skipped")),
        distinct_nontrivial=len(total.tuples),
        rule="wire half: for a seeded well-formed frame (optionally with extended blocks) every truncation n in [0,N] x every catalogue op reachable for its shape (field get/set/by-tag incl. composite members; arrays: data/[]/front/back/strlen/strlen_r/fill/assign_string/assign/assign_range/iterate/reverse iterate/raw(); groups: view/size/empty/get_header and its members/resize/clear/fill_group_header/size_bytes/iterate/iterator arithmetic/[]/front/back; every op of the first and last entry of a flat group again through *(begin()+i), *(end()-k), back(), front(), ++ steps, end()[-k]; data: view/size/read/[]/front/back/resize/push_back/assign_string/clear/size_bytes; size_bytes and visit_children of every level; get_header and its members, fill_message_header; seven scripted cursor traversals through every wrapper kind incl. cursor setters and subranges, + size_bytes(m,c); full-depth visit; six real producers - random-access setters or the cursor idiom, over the frame's own bytes, an all-ones slot or a zeroed slot - encoding the frame's value tree into the n-byte slot: capacity fault on the writer side); a quarter of the frames additionally carry 1-2 corrupted structural fields or flipped bytes (then only the safety half applies), each on a fresh copy of the bytes placed so that byte n is a guard page, canaries before p; dynarr half: seeded histories on dynamic_array_ref with capacity below what an op needs and corrupted length prefixes. Outcome must be completed or handler; a guard-page hit is re-run with accessible slack to tell a late check (handler fires after the access; counted, not a violation of the literal statement) from a silent out-of-bounds access; converse: handler must not fire when n covers the op's conservative extent (DESIGN appendix D). distinct = distinct (build, schema, target kind/op, outcome, fits|cut) tuples",
        samples=total.samples[:5],
        frames=total.runs,
        op_executions=ops,
        faults_fired={k: v for k, v in sorted(total.counters.items()) if k.startswith("fault.") or k.startswith("dynarr.fault.")},
        probes={k: v for k, v in sorted(total.counters.items()) if "probe." in k or k.startswith("known.") or k.startswith("c10.completed")},
        builds=[r[0] for r in runs] + ["dynarr_checked"],
        op_executions_per_hour=int(ops / max(wall, 1e-9) * 3600),
        simulated_time="n/a (no clock); steps = op executions",
        regression_plans_replayed=nreg,
        real_components=REAL + eng_dynarr.REAL,
        stub_components=STUB,
        worker_deaths=total.worker_deaths,
    )
    write_evidence("C10", tier, base_seed(), "fault_enumeration", cov, wall, nviol,
                   ["guard pages cannot see reads that stay inside [p,p+n) nor pointer wrap-around", "converse extents are conservative: navigation to an entry may check the whole entry block, group iteration the whole group", "a check placed after the access satisfies the literal statement (handler is invoked in the same accessor call) and is only counted", "accesses below p are outside the statement (it speaks of bytes at or beyond p+n) and are only counted: with hostile 64-bit structural values derived pointers wrap around and land before the buffer"])
    return 2 if herr else (1 if nviol else 0)


def _run_simple(prop, tier, counts, level, rule, extra_cov, assumptions, eval_counter):
    t0 = time.time()
    flavours = tier_flavours(tier)
    bins, d = build(tier, flavours)
    out = scratch_dir(prop)
    extra, known = known_arg(prop)
    first = first_run_seed()
    nreg, regbad = run_regressions(prop, lambda t: bins["checked" if "\nbuild checked" in t else "unchecked"], extra=extra)
    nviol = regbad + report_api_failures(prop, d)
    herr = False
    total = Batch()
    used = []
    for fl, n in counts.items():
        if fl not in bins:
            continue
        used.append(fl)
        b = run_batch(bins[fl], prop, tier, first, n, out, extra=extra)
        log("[%s] %s: %d plans in %.1fs, %d violating" % (prop, fl, b.runs, b.wall, len(b.violations)))
        v, e = gate_and_report(prop, bins[fl], b, out, extra=extra, tier=tier)
        nviol += v
        herr |= e
        b.tuples = {fl + "|" + t for t in b.tuples}
        total.merge(b)
    print_known(prop, known, total)
    wall = time.time() - t0
    evals = total.counters.get(eval_counter, total.runs)
    cov = dict(
        evaluations=evals,
        distinct_nontrivial=len(total.tuples),
        rule=rule,
        plans=total.runs,
        samples=total.samples[:5],
        faults_fired={k[len("fault.fired."):]: v for k, v in sorted(total.counters.items()) if k.startswith("fault.fired.")},
        counters={k: v for k, v in sorted(total.counters.items()) if not k.startswith("fault.")},
        builds=used,
        plans_per_hour=int(total.runs / max(wall, 1e-9) * 3600),
        simulated_time="n/a (no clock); steps = " + eval_counter,
        regression_plans_replayed=nreg,
        known_findings_matched=dict(total.known),
        real_components=REAL,
        stub_components=STUB,
        worker_deaths=total.worker_deaths,
    )
    cov.update(extra_cov)
    write_evidence(prop, tier, base_seed(), level, cov, wall, nviol, assumptions)
    return 2 if herr else (1 if nviol else 0)


def run_c04(tier, args):
    q = tier == "quick"
    return _run_simple("C04", tier, {"checked": 60000 if q else 2000000, "unchecked": 30000 if q else 1000000, "checked_clang20": 300000, "unchecked_clang20": 300000}, "exploration",
                       "one evaluation = one cursor call inside a seeded walk over a complete frame (optionally with extended blocks): per member a seeded sequence of wrappers (plain, init, dont_move, init_dont_move, skip; up to 3 non-moving repeats before a moving call; setter form for scalars; cursor_range or cursor_subrange(0,j)+cursor_subrange(j[,count]) for groups; const or mutable cursor). After every call the cursor position must equal the documented one (model, appendix C) and the value / view address must equal what the real random-access accessor returns; a complete walk must end at the message end with size_bytes(m,c)==size_bytes(m); group / data views handed out through a cursor must decode the same numInGroup / length and expose the same payload as the random-access ones. A sixth of the plans are writer-side differentials: the same value tree encoded into a slot (zeros, ones, another frame, or noise) by a real producer using random-access setters and by one using the cursor idiom (plain cursor setters, group(c) + fill_group_header + cursor_range, data through dont_move + skip) must leave identical bytes and the cursor at size_bytes(m). In checked builds a third of the walks displace the cursor (by +-1..17 bytes) before one plain/dont_move/skip call of a field or non-first group/data: the wrong-cursor assertion must fire at exactly that call. distinct = distinct (build, schema, member kind, wrapper, extended?) and (misuse, schema, member kind, wrapper) tuples",
                       {}, ["the cursor protocol model of DESIGN.md appendix C (derived from doc/representation.md and the cursor_ops docs)", "misuse is only injected where the statement demands a report (field, or non-first group/data, through plain/dont_move/skip)"], "c04.calls")


def run_c19(tier, args):
    q = tier == "quick"
    return _run_simple("C19", tier, {"checked": 40000 if q else 400000, "unchecked": 40000 if q else 400000, "checked_clang20": 60000, "unchecked_clang20": 60000}, "fault_enumeration",
                       "per seeded frame: (a) one complete full-depth visit whose event sequence (callback kind, tag, view position) must equal the schema-order sequence of the model and whose delivered values must equal the named accessor's; cursor must end at the message end; (b) for EVERY k from 1 to the number of stoppable callbacks the same visit with the k-th callback returning true: exactly the first events up to that callback, identical to the complete visit's prefix, nothing after (incl. stops inside nested group entries and composites); (c) for every field / composite member: get_by_tag == named getter, set_by_tag writes the same bytes as the named setter; enum values yield their value tag or unknown_enum_value_tag, sets every choice with its bit; (d) three scripted cursor walks (plain, seeded wrapper mix with setters and subranges, init/dont_move) through the named cursor accessors and through get_by_tag/set_by_tag(view, ..., cursor) must be identical call by call. evaluations = visits executed (complete + cancelled). distinct = distinct (build, schema, callback kind) tuples",
                       {"exhaustive_over_cancellation_points_per_frame": True}, ["event grammar of DESIGN.md appendix E (from doc/visit_api.md)", "frames are well-formed; truncated visits belong to C10"], "fault.fired.cancel_at_callback")


def run_c03(tier, args):
    q = tier == "quick"
    return _run_simple("C03", tier, {"checked": 60000 if q else 800000, "unchecked": 60000 if q else 800000, "unchecked_O0": 20000 if q else 200000, "checked_clang20": 100000, "unchecked_clang20": 100000}, "exploration",
                       "one evaluation = one accessor result checked on a frame produced by the independent reference encoder with wire block lengths larger than the compiled ones (root and every group level independently, +1..+21 bytes of filler): every field of every level instance by random access (value == wire bytes at the model offset, views at the model position), every group (position, size, size_bytes, entry positions by iteration and operator[]), every data member (position, size, content), size_bytes of every level, size_bytes_checked, seven cursor traversals (plain and through every wrapper kind, subranges; every position, value and view address, end == wire size) and a full visit (structure and positions, end == wire size); flat groups also through iterator arithmetic. A fifth of the plans take the image from the REAL producer instead: the encoder generated from version 2 of the schema (same messages, 1-3 fields of built-in types appended to the block of every message and group), random-access setters or the cursor idiom, driven by a version-2 value tree, decoded by the version-1 consumer. Extensions are +1..+21 bytes or up to values around 127/128/255/256/32767/32768 (root: up to 65536). distinct = distinct (build, schema, message, root extension) tuples. No fault is involved: the configuration axis is the producing peer's schema version (degenerate use of the method, DESIGN 1).",
                       {}, ["the layout model of DESIGN.md appendix A", "four fifths of the frames come from the reference encoder with filler-extended blocks; one fifth from the real encoder sbeppc generates for version 2 of the schema (corner schemas and the first 4 / 16 random ones; fields appended to every block), accepted only when the image equals the reference encoder's byte for byte (version field aside)"], "c03.random_access_checks")


def replay(prop, path):
    plan = open(path).read()
    if "\nengine wire-build" in plan:
        # a driver TU that did not compile: rebuild and look again
        bins, d = build("quick", tier_flavours("quick"))
        want = [l.split(" ", 1)[1].strip() for l in plan.split("\n") if l.startswith("schema ")]
        hit = [f for f in api_failures(prop, d) if f[1] in want]
        for fl, schema, first, text in hit:
            log("schema %s (%s) still does not compile: %s" % (schema, fl, first[:400]))
        if hit:
            log("VIOLATION property=%s replay=%s" % (prop, path))
            return 1
        return 0
    if "\nengine dynarr" in plan:
        import eng_dynarr
        return eng_dynarr.replay(prop, path)
    fl = "checked" if "\nbuild checked" in plan else "unchecked"
    bins, d = build("quick", tier_flavours("quick"))
    extra, _ = known_arg(prop)
    viol, sig, fp, outp = exec_plan(bins[fl], path, extra=extra)
    log(outp.strip()[-3000:])
    if viol:
        log("VIOLATION property=%s replay=%s" % (prop, path))
        return 1
    return 0
