"""Engine dynarr: C13 (control configuration) and the capacity half of C10."""
import os
import subprocess
import time

from orch import *  # noqa

SRC = os.path.join(VERIF, "dynarr", "dynarr.cpp")
KERNEL = [os.path.join(VERIF, "sim")]


def build():
    h = file_hash([os.path.join(REPO, "sbepp/src"), SRC, os.path.abspath(__file__)] + KERNEL)
    inc = "-I" + os.path.join(REPO, "sbepp/src")

    def jobs(d):
        # checked: C++17 (memcpy/byteswap and iterator-pair paths); unchecked: C++20 (bit_cast, std::ranges::copy in assign_range)
        return [
            ("dynarr_checked", ["g++", "-std=c++17", "-O1", "-g", inc, SRC, "-DSBEPP_ENABLE_ASSERTS_WITH_HANDLER", "-o", "dynarr_checked"]),
            ("dynarr_unchecked", ["g++", "-std=c++20", "-O1", "-g", inc, SRC, "-DSBEPP_DISABLE_ASSERTS", "-o", "dynarr_unchecked"]),
        ]

    return Builder().build("dynarr", h, jobs)


REAL = ["sbepp.hpp: dynamic_array_ref, byte_range, get_value/set_primitive, built-in length types (compiled from /repo's working tree)"]
STUB = ["the medium holding the view's bytes (guard-paged arena, seeded stale content)", "sbepp::assertion_failed (records and unwinds)", "the caller (seeded operation history)"]


# ---------------------------------------------------------------------------------------------
# Call forms: "operations valid for a vector are valid here" has a half that no history can reach - a call
# form that std::vector accepts and dynamic_array_ref rejects does not get as far as running. Each form below is
# compiled (syntax only) against std::vector<V> and against dynamic_array_ref<char, V, uint32, little>; a form
# the vector accepts must compile for the view too. This is a build-time adjunct of the history engine, not a
# simulation: it decides whether the operations the histories are made of exist in the forms a vector user writes.
CALL_FORMS = [
    ("assign(count, value) with integer literals", "a.assign(3, 65);"),
    ("assign(count, value) with typed arguments", "a.assign(static_cast<typename T::size_type>(3), V(65));"),
    ("assign(count, value), count an unsigned literal", "a.assign(3u, 65);"),
    ("insert(pos, count, value) with integer literals", "a.insert(a.begin(), 2, 65);"),
    ("insert(pos, value)", "a.insert(a.begin(), 65);"),
    ("insert(pos, first, last)", "a.insert(a.begin(), src.begin(), src.end());"),
    ("insert(pos, initializer_list)", "a.insert(a.end(), {V(1), V(2)});"),
    ("resize(count)", "a.resize(3);"),
    ("resize(count, value) with integer literals", "a.resize(3, 65);"),
    ("push_back(integer literal)", "a.push_back(65);"),
    ("pop_back()", "a.pop_back();"),
    ("assign(initializer_list)", "a.assign({V(1), V(2)});"),
    ("assign(first, last) from vector iterators", "a.assign(src.begin(), src.end());"),
    ("assign(first, last) from pointers", "a.assign(src.data(), src.data() + src.size());"),
    ("assign(first, last) from const pointers", "{ const V* f = src.data(); a.assign(f, f + src.size()); }"),
    ("erase(pos)", "a.erase(a.begin());"),
    ("erase(first, last) up to end()", "a.erase(a.begin(), a.end());"),
    ("clear()", "a.clear();"),
    ("range-for and element access", "for(auto x : a) (void)x; (void)a[0]; (void)a.front(); (void)a.back(); (void)a.size(); (void)a.empty();"),
]
PROBE_TU = """#include <vector>
#include <cstdint>
#include <cstddef>
#include <sbepp/sbepp.hpp>
using V = %s;
template<typename T> void form(T& a, std::vector<V>& src) { %s }
#ifdef PROBE_VECTOR
template void form(std::vector<V>&, std::vector<V>&);
#else
using A = sbepp::detail::dynamic_array_ref<char, V, sbepp::uint32_t, sbepp::endian::little>;
template void form(A&, std::vector<V>&);
#endif
int main() {}
"""


def call_form_probe(out, form, stmt, vtype, std="c++17"):
    """-> (valid for vector, valid for the view, compiler message for the view)"""
    os.makedirs(out, exist_ok=True)
    tu = os.path.join(out, "probe_%d.cpp" % os.getpid())
    with open(tu, "w") as fh:
        fh.write(PROBE_TU % (vtype, stmt))
    base = ["g++", "-std=" + std, "-fsyntax-only", "-w", "-I" + os.path.join(REPO, "sbepp/src"), "-DSBEPP_ENABLE_ASSERTS_WITH_HANDLER", tu]
    rv = subprocess.run(base + ["-DPROBE_VECTOR"], stdout=subprocess.PIPE, stderr=subprocess.STDOUT, text=True, errors="replace")
    ra = subprocess.run(base, stdout=subprocess.PIPE, stderr=subprocess.STDOUT, text=True, errors="replace")
    os.unlink(tu)
    msg = [l for l in ra.stdout.split("\n") if "error" in l]
    return rv.returncode == 0, ra.returncode == 0, (msg[0] if msg else "")[:300]


def run_call_forms(out):
    """-> (probes compiled, forms valid for a vector, violations printed)"""
    from concurrent.futures import ThreadPoolExecutor
    jobs = [(f, s, v, std) for f, s in CALL_FORMS for v in ("char", "std::uint8_t", "std::int8_t") for std in ("c++17", "c++20")]

    def one(j):
        f, s, v, std = j
        return j, call_form_probe(os.path.join(out, "probe-%s-%s-%d" % (v.replace(":", ""), std.replace("+", "p"), abs(hash(f)) % 100000)), f, s, v, std)

    with ThreadPoolExecutor(max_workers=8) as ex:
        results = list(ex.map(one, jobs))
    nvalid = nviol = 0
    reported = set()
    os.makedirs(os.path.join(VERIF, "replays"), exist_ok=True)
    for (f, s, v, std), (okv, oka, msg) in results:
        if not okv:
            continue  # not a form a vector accepts for this element type
        nvalid += 1
        if oka or f in reported:
            continue
        reported.add(f)
        nviol += 1
        final = os.path.join(VERIF, "replays", "C13-call-form-%d.plan" % [x[0] for x in CALL_FORMS].index(f))
        with open(final, "w") as fh:
            fh.write("property C13\nengine call-form-probe\nform %s\nstmt %s\nvalue %s\nstd %s\nexpect C13:valid-for-vector-does-not-compile\n# %s\n" % (f, s, v, std, msg))
        log("VIOLATION property=C13 replay=%s" % final)
        log("  signature=C13:valid-for-vector-does-not-compile form=`%s` element type %s (-std=%s)" % (f, v, std))
        log("  detail: std::vector<%s> accepts `%s`, dynamic_array_ref<char, %s, uint32, little> does not: %s" % (v, s, v, msg))
    log("[C13] call forms: %d probes, %d valid for std::vector, %d of those rejected by the view" % (len(results), nvalid, nviol))
    return len(results), nvalid, nviol


def replay_call_form(path):
    kv = dict(l.split(" ", 1) for l in open(path).read().split("\n") if " " in l and not l.startswith("#"))
    okv, oka, msg = call_form_probe(scratch_dir("C13"), kv["form"], kv["stmt"], kv["value"], kv["std"])
    log("call form `%s` for %s: vector %s, view %s %s" % (kv["form"], kv["value"], "accepts" if okv else "rejects", "accepts" if oka else "rejects", msg))
    if okv and not oka:
        log("VIOLATION property=C13 replay=%s" % path)
        return 1
    return 0


def run_c13(tier, args):
    t0 = time.time()
    d = build()
    out = scratch_dir("C13")
    n = 200000 if tier == "quick" else 20000000
    first = first_run_seed()
    total = Batch()
    # second half: the <data> members sbeppc generates for the corpus schemas, through the generated accessors
    import eng_wire
    wbins, wd = eng_wire.build(tier, eng_wire.tier_flavours(tier))

    def chooser(t):
        if "\nengine wire" in t:
            return wbins["unchecked" if "\nbuild unchecked" in t else "checked"]
        return os.path.join(d, "dynarr_unchecked" if "\nbuild unchecked" in t else "dynarr_checked")

    nreg, regbad = run_regressions("C13", chooser)
    wn = 40000 if tier == "quick" else 2000000
    flavours = [("checked", os.path.join(d, "dynarr_checked"), n), ("unchecked", os.path.join(d, "dynarr_unchecked"), n // 4),
                ("wire_checked", wbins["checked"], wn), ("wire_unchecked", wbins["unchecked"], wn // 2), ("wire_unchecked_O0", wbins["unchecked_O0"], wn // 4)]
    if tier != "quick":
        flavours += [("wire_checked_clang20", wbins["checked_clang20"], wn // 4), ("wire_unchecked_clang20", wbins["unchecked_clang20"], wn // 4)]
    nprobe, nform, nformbad = run_call_forms(out)
    nviol = regbad + eng_wire.report_api_failures("C13", wd) + nformbad
    herr = False
    for name, binary, cnt in flavours:
        b = run_batch(binary, "C13", tier, first, cnt, out)
        log("[C13] %s build: %d histories in %.1fs, %d violating" % (name, b.runs, b.wall, len(b.violations)))
        v, e = gate_and_report("C13", binary, b, out, tier=tier)
        nviol += v
        herr |= e
        b.counters = {name + "." + k: v for k, v in b.counters.items()}
        b.tuples = {name + "|" + t for t in b.tuples}
        total.merge(b)
    wall = time.time() - t0
    ops = sum(v for k, v in total.counters.items() if (".op." in k or ".c13w.op." in k) and not k.endswith("skipped"))
    cov = dict(
        evaluations=total.runs,
        distinct_nontrivial=len(total.tuples),
        rule="two halves. dynarr: one evaluation = one seeded history (1-60 operations, swarm-selected op kinds, seeded stale initial medium) of dynamic_array_ref<Byte,Value,Length,E> instantiated by hand, checked op by op against std::vector. wire_*: one evaluation = one seeded history (1-14 operations) on a <data> member of a corpus schema as sbeppc generates it (its length type, the schema's byte order, the flavour's byte type), obtained through the named accessor, get_by_tag, accessor(cursor_ops::init(c)), accessor(cursor_ops::init_dont_move(c)) or get_by_tag(view, cursor); after every operation (the history prefix is re-run on a fresh copy of a frame produced by the reference encoder, followed by 300 bytes of slack and a guard page) the length prefix read from the buffer in the schema's byte order and width, size(), the payload, the positions of returned iterators and every byte outside the prefix and the payload area in use are compared with std::vector / the initial medium. distinct = distinct (build, length type, op kind, outcome, old-size class, new-size class vs capacity, position class) tuples that were actually executed (skipped ops excluded)",
        samples=total.samples[:4],
        operations_executed=ops,
        call_form_probes=dict(compiled=nprobe, valid_for_vector=nform, rejected_by_view=nformbad, forms=[f for f, _ in CALL_FORMS],
                              note="build-time adjunct: each form is compiled against std::vector<V> and dynamic_array_ref<char, V, uint32, little> for V in char / uint8_t / int8_t under C++17 and C++20; a form the vector accepts must compile for the view"),
        op_counts={k: v for k, v in sorted(total.counters.items())},
        histories_per_hour=int(total.runs / max(wall, 1e-9) * 3600),
        simulated_time="n/a (no clock in the system under test); steps = operations_executed",
        regression_plans_replayed=nreg,
        faults_injected={"none": "C13 is the fault-free control configuration of the data-view workload (DESIGN 1, 5); its capacity/hostile-prefix configuration is reported under C10"},
        configurations="4 length types x 2 byte orders x 3 value types x 3 byte types, drawn per history",
        real_components=REAL + eng_wire.REAL,
        stub_components=STUB,
        worker_deaths=total.worker_deaths,
    )
    write_evidence("C13", tier, base_seed(), "exploration", cov, wall, nviol,
                   ["std::vector is the reference model", "elements created by resize(n, default_init) are unspecified and adopted from the buffer", "histories keep size <= min(max_size, capacity) (documented precondition)"])
    return 2 if herr else (1 if nviol else 0)


def run_c10_capacity(tier, out, first):
    """Capacity half of C10; returns (batch, nviol, harness_error)."""
    d = build()
    n = 100000 if tier == "quick" else 5000000
    binary = os.path.join(d, "dynarr_checked")
    b = run_batch(binary, "C10", tier, first, n, out)
    log("[C10/dynarr] %d capacity/hostile-prefix histories in %.1fs, %d violating" % (b.runs, b.wall, len(b.violations)))
    v, e = gate_and_report("C10", binary, b, out, tier=tier)
    return b, v, e


def replay(prop, path):
    plan = open(path).read()
    if "\nengine call-form-probe" in plan:
        return replay_call_form(path)
    if "\nengine wire" in plan:
        import eng_wire
        return eng_wire.replay(prop, path)
    d = build()
    binary = os.path.join(d, "dynarr_unchecked" if "\nbuild unchecked" in plan else "dynarr_checked")
    viol, sig, fp, outp = exec_plan(binary, path)
    log(outp.strip())
    if viol:
        log("VIOLATION property=%s replay=%s" % (prop, path))
        return 1
    return 0
