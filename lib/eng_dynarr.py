"""Engine dynarr: C13 (control configuration) and the capacity half of C10."""
import os
import time

from orch import *  # noqa

SRC = os.path.join(VERIF, "dynarr", "dynarr.cpp")
KERNEL = [os.path.join(VERIF, "sim")]


def build():
    h = file_hash([os.path.join(REPO, "sbepp/src"), SRC, os.path.abspath(__file__)] + KERNEL)
    inc = "-I" + os.path.join(REPO, "sbepp/src")

    def jobs(d):
        # checked: C++17 (memcpy/byteswap and iterator-pair paths); unchecked: C++20 (bit_cast, std::ranges::copy in assign_range)
        return [
            ("dynarr_checked", ["g++", "-std=c++17", "-O1", "-g", inc, SRC, "-DSBEPP_ENABLE_ASSERTS_WITH_HANDLER", "-o", "dynarr_checked"]),
            ("dynarr_unchecked", ["g++", "-std=c++20", "-O1", "-g", inc, SRC, "-DSBEPP_DISABLE_ASSERTS", "-o", "dynarr_unchecked"]),
        ]

    return Builder().build("dynarr", h, jobs)


REAL = ["sbepp.hpp: dynamic_array_ref, byte_range, get_value/set_primitive, built-in length types (compiled from /repo's working tree)"]
STUB = ["the medium holding the view's bytes (guard-paged arena, seeded stale content)", "sbepp::assertion_failed (records and unwinds)", "the caller (seeded operation history)"]


def run_c13(tier, args):
    t0 = time.time()
    d = build()
    out = scratch_dir("C13")
    n = 200000 if tier == "quick" else 20000000
    first = first_run_seed()
    total = Batch()
    # second half: the <data> members sbeppc generates for the corpus schemas, through the generated accessors
    import eng_wire
    wbins, wd = eng_wire.build(tier, eng_wire.tier_flavours(tier))

    def chooser(t):
        if "\nengine wire" in t:
            return wbins["unchecked" if "\nbuild unchecked" in t else "checked"]
        return os.path.join(d, "dynarr_unchecked" if "\nbuild unchecked" in t else "dynarr_checked")

    nreg, regbad = run_regressions("C13", chooser)
    wn = 40000 if tier == "quick" else 2000000
    flavours = [("checked", os.path.join(d, "dynarr_checked"), n), ("unchecked", os.path.join(d, "dynarr_unchecked"), n // 4),
                ("wire_checked", wbins["checked"], wn), ("wire_unchecked", wbins["unchecked"], wn // 2), ("wire_unchecked_O0", wbins["unchecked_O0"], wn // 4)]
    if tier != "quick":
        flavours += [("wire_checked_clang20", wbins["checked_clang20"], wn // 4), ("wire_unchecked_clang20", wbins["unchecked_clang20"], wn // 4)]
    nviol = regbad + eng_wire.report_api_failures("C13", wd)
    herr = False
    for name, binary, cnt in flavours:
        b = run_batch(binary, "C13", tier, first, cnt, out)
        log("[C13] %s build: %d histories in %.1fs, %d violating" % (name, b.runs, b.wall, len(b.violations)))
        v, e = gate_and_report("C13", binary, b, out, tier=tier)
        nviol += v
        herr |= e
        b.counters = {name + "." + k: v for k, v in b.counters.items()}
        b.tuples = {name + "|" + t for t in b.tuples}
        total.merge(b)
    wall = time.time() - t0
    ops = sum(v for k, v in total.counters.items() if (".op." in k or ".c13w.op." in k) and not k.endswith("skipped"))
    cov = dict(
        evaluations=total.runs,
        distinct_nontrivial=len(total.tuples),
        rule="two halves. dynarr: one evaluation = one seeded history (1-60 operations, swarm-selected op kinds, seeded stale initial medium) of dynamic_array_ref<Byte,Value,Length,E> instantiated by hand, checked op by op against std::vector. wire_*: one evaluation = one seeded history (1-14 operations) on a <data> member of a corpus schema as sbeppc generates it (its length type, the schema's byte order, the flavour's byte type), obtained through the named accessor, get_by_tag, accessor(cursor_ops::init(c)), accessor(cursor_ops::init_dont_move(c)) or get_by_tag(view, cursor); after every operation (the history prefix is re-run on a fresh copy of a frame produced by the reference encoder, followed by 300 bytes of slack and a guard page) the length prefix read from the buffer in the schema's byte order and width, size(), the payload, the positions of returned iterators and every byte outside the prefix and the payload area in use are compared with std::vector / the initial medium. distinct = distinct (build, length type, op kind, outcome, old-size class, new-size class vs capacity, position class) tuples that were actually executed (skipped ops excluded)",
        samples=total.samples[:4],
        operations_executed=ops,
        op_counts={k: v for k, v in sorted(total.counters.items())},
        histories_per_hour=int(total.runs / max(wall, 1e-9) * 3600),
        simulated_time="n/a (no clock in the system under test); steps = operations_executed",
        regression_plans_replayed=nreg,
        faults_injected={"none": "C13 is the fault-free control configuration of the data-view workload (DESIGN 1, 5); its capacity/hostile-prefix configuration is reported under C10"},
        configurations="4 length types x 2 byte orders x 3 value types x 3 byte types, drawn per history",
        real_components=REAL + eng_wire.REAL,
        stub_components=STUB,
        worker_deaths=total.worker_deaths,
    )
    write_evidence("C13", tier, base_seed(), "exploration", cov, wall, nviol,
                   ["std::vector is the reference model", "elements created by resize(n, default_init) are unspecified and adopted from the buffer", "histories keep size <= min(max_size, capacity) (documented precondition)"])
    return 2 if herr else (1 if nviol else 0)


def run_c10_capacity(tier, out, first):
    """Capacity half of C10; returns (batch, nviol, harness_error)."""
    d = build()
    n = 100000 if tier == "quick" else 5000000
    binary = os.path.join(d, "dynarr_checked")
    b = run_batch(binary, "C10", tier, first, n, out)
    log("[C10/dynarr] %d capacity/hostile-prefix histories in %.1fs, %d violating" % (b.runs, b.wall, len(b.violations)))
    v, e = gate_and_report("C10", binary, b, out, tier=tier)
    return b, v, e


def replay(prop, path):
    plan = open(path).read()
    if "\nengine wire" in plan:
        import eng_wire
        return eng_wire.replay(prop, path)
    d = build()
    binary = os.path.join(d, "dynarr_unchecked" if "\nbuild unchecked" in plan else "dynarr_checked")
    viol, sig, fp, outp = exec_plan(binary, path)
    log(outp.strip())
    if viol:
        log("VIOLATION property=%s replay=%s" % (prop, path))
        return 1
    return 0
