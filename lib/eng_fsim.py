"""Engine fsim: sbeppc in-process over a simulated file layer (C20, C09)."""
import os
import re
import time

from orch import *  # noqa

SRC = os.path.join(VERIF, "fsim", "fsim.cpp")
KERNEL = [os.path.join(VERIF, "sim")]


def build(flavour="plain"):
    h = file_hash([os.path.join(REPO, "sbepp/src"), os.path.join(REPO, "sbeppc/src"), SRC, os.path.join(VERIF, "fsim", "corpus")] + KERNEL + [os.path.abspath(__file__)], flavour)
    san = ["-fsanitize=address,undefined", "-fno-sanitize-recover=undefined", "-fno-omit-frame-pointer"] if flavour == "asan" else []
    opt = ["-O1", "-g"]

    def jobs(d):
        bi = os.path.join(d, "build_info.cpp")
        src = open(os.path.join(REPO, "sbeppc/src/sbepp/sbeppc/build_info.cpp.in")).read().replace("@sbepp_VERSION@", "verif")
        open(bi, "w").write(src)
        inc = ["-I" + os.path.join(REPO, "sbeppc/src"), "-I" + os.path.join(REPO, "sbepp/src")]
        # _GLIBCXX_ASSERTIONS: library preconditions (dereferencing a disengaged optional, indexing past the end of a
        # vector / string_view, front() of an empty container) abort instead of being silent undefined behaviour
        cxx = ["g++", "-std=c++17", "-D_GLIBCXX_ASSERTIONS"] + opt + san
        stage1 = [
            # asserts stay enabled (no -DNDEBUG): the shipped release build compiles them out, C09 wants them on
            ("main.o", cxx + ["-Dmain=sbeppc_main"] + inc + ["-c", os.path.join(REPO, "sbeppc/src/sbepp/sbeppc/main.cpp"), "-o", "main.o"]),
            ("build_info.o", cxx + inc + ["-c", bi, "-o", "build_info.o"]),
            ("fsim.o", cxx + ["-c", SRC, "-o", "fsim.o"]),
        ]
        stage2 = [("fsim", ["g++"] + san + ["-rdynamic", "fsim.o", "main.o", "build_info.o", "-lfmt", "-lpugixml", "-ldl", "-o", "fsim"])]
        return [stage1, stage2]

    return Builder().build("fsim-" + flavour, h, jobs)


# extra corpus of valid but unusual schemas (the wire engine's corner schemas, a <ref>-typed dimension)
os.environ.setdefault("FSIM_EXTRA_CORPUS", os.path.join(VERIF, "fsim", "corpus"))

REAL = ["sbeppc: main.cpp and every header it includes, compiled from /repo's working tree with -Dmain=sbeppc_main and asserts enabled", "libstdc++ fstream / std::filesystem", "pugixml", "fmt"]
STUB = ["file-system namespace and the outcome of fopen64/fclose/read/write/writev/lseek64/mkdir/stat/lstat (SimFS over memfd)", "stored bytes of the input files (storage faults)", "argv", "heap layout before a run (seeded fragmentation)", "exit() and __assert_fail (interposed to classify outcomes)", "the wall clock (time, clock_gettime(CLOCK_REALTIME), gettimeofday: simulated time, moved by `clock` ops of the plan), getcwd/realpath/readlink", "process boundaries of C20: every sbeppc run, reference runs included, happens in a forked child of a worker that never executes sbeppc code itself (fresh statics per run); outcome, file tree and statistics come back through a pipe", "operator new / operator delete during a run (plain build only): fresh blocks filled with 0xCD, released blocks filled with 0xDD and quarantined, so that uninitialised or dangling heap reads become visible in outputs"]


def info(binary, tier):
    r = sh([binary, "info", tier])
    m = re.search(r"^ENUM (\d+)", r.stdout, re.M)
    if not m:
        raise RuntimeError("fsim info failed: " + r.stdout[-2000:])
    schemas = re.findall(r"^SCHEMA (\S+) points=(\d+) trace_len=(\d+) files=(\d+)", r.stdout, re.M)
    global CRASHPOINTS
    mc = re.search(r"^CRASHPOINTS (\d+)", r.stdout, re.M)
    CRASHPOINTS = int(mc.group(1)) if mc else 0
    return int(m.group(1)), schemas


CRASHPOINTS = 0


def fault_summary(counters):
    return {k[len("fault.fired."):]: v for k, v in sorted(counters.items()) if k.startswith("fault.fired.")}


def run_c20(tier, args):
    t0 = time.time()
    d = build()
    binary = os.path.join(d, "fsim")
    out = scratch_dir("C20")
    nreg, regbad = run_regressions("C20", lambda t: binary)
    nenum, schemas = info(binary, tier)
    nexplore = 3000 if tier == "quick" else 60000
    base = first_run_seed() - 1  # low 32 bits 0: indices 1..nenum are the enumeration
    b = run_batch(binary, "C20", tier, base + 1, nenum + nexplore, out)
    log("[C20] %d enumerated single-fault runs + %d enumerated crash points + %d explored histories in %.1fs, %d violating" % (nenum - CRASHPOINTS, CRASHPOINTS, nexplore, b.wall, len(b.violations)))
    nviol, herr = gate_and_report("C20", binary, b, out, tier=tier)
    nviol += regbad
    total = b
    if b.counters.get("harness.no_reference"):
        # a plan met a (schema, directory) pair without a usable fault-free reference: it ended without a verdict.
        # On the unchanged tree this does not happen; if it does, the run is not a basis for exit 0
        log("HARNESS-ERROR property=C20: %d plans ended without a verdict because a fault-free reference run failed (see `harness.no_reference`)" % b.counters["harness.no_reference"])
        herr = True
    if tier == "thorough":
        da = build("asan")
        ba = run_batch(os.path.join(da, "fsim"), "C20", tier, base + nenum + 1, 1500, out, env=dict(os.environ, ASAN_OPTIONS="detect_leaks=0:exitcode=77", UBSAN_OPTIONS="halt_on_error=1:exitcode=77"))
        log("[C20] ASan+UBSan build: %d histories, %d violating" % (ba.runs, len(ba.violations)))
        v2, e2 = gate_and_report("C20", os.path.join(da, "fsim"), ba, out, tier=tier)
        nviol += v2
        herr |= e2
        total.merge(ba)
    wall = time.time() - t0
    cov = dict(
        evaluations=total.runs,
        distinct_nontrivial=len(total.tuples),
        rule="plans 1..N enumerate every single fault of the fault-free call trace of each tier schema: (call kind, ordinal among calls of that kind, outcome) for mkdir/open-for-write/write+writev/close/open-for-read/read/stat (stat faults are soft), and every crash point: the invocation dies at call k for every k of its trace, as a process kill and as a power loss under three seeds of what survives, followed by the restart of the same command, which is judged in full; further plans are seeded histories of 1-4 sbeppc runs on one simulated directory with 0-3 faults per run, yanked disk, disk-full-after-B-bytes, persistent environment conditions on the output root (every call incl. stat fails with EACCES/ENAMETOOLONG/ELOOP/EIO), pre-populated output directories (longer/torn/stale/identical/same-size/read-only files, files where directories go and the reverse, symlinked leaf directories; modification times before / with / after the schema's, now, or in the future), a simulated wall clock moved between runs, heap-layout perturbation, and crash-and-restart: an invocation dies at a seeded call of its trace - process kill (what reached write() stays) or power loss (nothing was synced: per file the new bytes, a prefix, nothing, a zero tail, the old content or no file; empty new directories may vanish) - and the restart on that directory must exit 0 with every file complete and byte-identical to the reference. distinct = distinct (schema, call kind#ordinal, outcome) fault points that actually fired",
        exhaustive_single_fault_enumeration=True,
        enumerated_points=nenum,
        enumerated_single_faults=nenum - CRASHPOINTS,
        enumerated_crash_points=CRASHPOINTS,
        exhaustive_crash_point_enumeration=True,
        explored_histories=nexplore,
        schemas=[dict(name=s[0], fault_points=int(s[1]), trace_len=int(s[2]), files=int(s[3])) for s in schemas],
        samples=total.samples[:4],
        faults_fired=fault_summary(total.counters),
        sbeppc_runs=total.counters.get("runs", 0),
        runs_with_hard_fault=total.counters.get("runs.with_hard_fault_fired", 0),
        runs_with_soft_fault=total.counters.get("runs.with_soft_fault_fired", 0),
        probes={k: v for k, v in total.counters.items() if k.startswith("probe.") or k.startswith("history.")},
        plans_per_hour=int(total.runs / max(wall, 1e-9) * 3600),
        simulated_time="wall clock owned by the simulator (sbeppc reads none on the unchanged tree); histories cover seconds to five years between runs; steps = interposed file calls",
        regression_plans_replayed=nreg,
        real_components=REAL,
        stub_components=STUB,
        worker_deaths=total.worker_deaths,
    )
    write_evidence("C20", tier, base_seed(), "fault_enumeration", cov, wall, nviol,
                   ["every file call sbeppc makes goes through the interposed libc entry points (a bypass through open/openat on a simulated path is detected and reported as a harness error)", "soft faults (short count, EINTR) may end either way as long as exit 0 implies complete files", "cmake/sbeppcHelpers.cmake is out of reach"])
    return 2 if herr else (1 if nviol else 0)


def run_c09(tier, args):
    t0 = time.time()
    d = build()
    binary = os.path.join(d, "fsim")
    out = scratch_dir("C09")
    n = 120000 if tier == "quick" else 1200000
    first = first_run_seed()
    known = load_known("C09")
    extra = ["--known", ",".join(sorted(known))] if known else []
    nreg, regbad = run_regressions("C09", lambda t: binary, extra=extra)
    b = run_batch(binary, "C09", tier, first, n, out, extra=extra)
    log("[C09] %d plans in %.1fs, %d violating, %d worker restarts" % (b.runs, b.wall, len(b.violations), b.worker_deaths))
    nviol, herr = gate_and_report("C09", binary, b, out, extra=extra, tier=tier, max_reports=6)
    nviol += regbad
    total = b
    if tier == "thorough":
        da = build("asan")
        ba = run_batch(os.path.join(da, "fsim"), "C09", tier, first + n, 20000, out, extra=extra, env=dict(os.environ, ASAN_OPTIONS="detect_leaks=0:exitcode=77:detect_stack_use_after_return=0", UBSAN_OPTIONS="halt_on_error=1:exitcode=77"))
        log("[C09] ASan+UBSan build: %d plans, %d violating" % (ba.runs, len(ba.violations)))
        v2, e2 = gate_and_report("C09", os.path.join(da, "fsim"), ba, out, extra=extra, tier=tier)
        nviol += v2
        herr |= e2
        total.merge(ba)
    for sig, ent in sorted(known.items()):
        if total.known.get(sig):
            log("KNOWN-FINDING: property=C09 %s (%d occurrences this run; first at seed %d)" % (ent["what"], total.known[sig], total.known_first.get(sig, 0)))
    wall = time.time() - t0
    applied = {k: v for k, v in sorted(total.counters.items()) if k.startswith("fault.applied.") or k.startswith("fsconfig.applied.") or k.startswith("fault.fired.")}
    cov = dict(
        evaluations=total.runs,
        distinct_nontrivial=len({t for t in total.tuples}) + len([k for k in applied]),
        rule="one evaluation = one sbeppc run in a simulated file system whose input was damaged by 1-3 storage faults (truncation, bit flip, zeroed/duplicated/swapped/stale 512-byte sector, class-preserving digit/letter/value-byte corruption), or arranged as an include graph (split across files, chains, self-include, cycle, diamond, missing target, directory target, empty file, garbage file), or hit by a read fault, or started with one of 22 argv shapes. distinct = distinct fault/config kinds applied plus distinct fired read-fault points; a run is non-trivial when sbeppc got past argument parsing and opened the input",
        samples=total.samples[:6],
        applied=applied,
        accepted=total.counters.get("c09.accepted", 0),
        rejected_clean=total.counters.get("c09.rejected_clean", 0),
        plans_per_hour=int(total.runs / max(wall, 1e-9) * 3600),
        simulated_time="n/a; steps = sbeppc runs",
        regression_plans_replayed=nreg,
        real_components=REAL,
        stub_components=STUB,
        worker_deaths=total.worker_deaths,
    )
    write_evidence("C09", tier, base_seed(), "exploration", cov, wall, nviol,
                   ["the property's input clause (all byte strings) is sampled only through storage faults on valid schemas and file-system configurations, not through a structure-aware mutator", "CPU budget 20 s per run stands in for 'never hangs'"])
    return 2 if herr else (1 if nviol else 0)


def replay(prop, path):
    d = build()
    known = load_known(prop)
    viol, sig, fp, outp = exec_plan(os.path.join(d, "fsim"), path, extra=["--known", ",".join(sorted(known))] if known else [])
    log(outp.strip()[-3000:])
    if viol:
        log("VIOLATION property=%s replay=%s" % (prop, path))
        return 1
    return 0
