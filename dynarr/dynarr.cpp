// Engine `dynarr`: sbepp::detail::dynamic_array_ref (the <data> view) driven by
// seeded operation histories against a std::vector reference model (C13), and
// the same workload with capacity / hostile-prefix faults (C10, capacity half).
//
// Real code: sbepp.hpp (dynamic_array_ref, byte_range, get/set_primitive).
// Stub: the medium (guard-paged arena), the assertion handler.
#include "../sim/arena.hpp"
#include "../sim/kernel.hpp"

#include <sbepp/sbepp.hpp>

#include <cstddef>
#include <iterator>
#include <list>
#include <string>
#include <vector>

namespace sbepp
{
[[noreturn]] void assertion_failed(char const* expr, char const* function, char const* /*file*/, long line)
{
    sim::report_handler(expr, function, line);
}
} // namespace sbepp

namespace
{
using sim::Op;
using sim::Out;
using sim::Outcome;
using sim::Plan;
using sim::Result;
using u8 = unsigned char;
using u64 = std::uint64_t;

const char* kLenName[] = {"u8", "u16", "u32", "u64"};
const char* kValName[] = {"char", "uchar", "schar"};
const char* kByteName[] = {"char", "uchar", "byte"};
const unsigned kLenSize[] = {1, 2, 4, 8};
const u64 kLenMax[] = {254, 65534, 4294967294ULL, 18446744073709551614ULL};

// A genuine single-pass input iterator (input_iterator_tag only).
template<typename V>
struct InputIt
{
    using iterator_category = std::input_iterator_tag;
    using value_type = V;
    using difference_type = std::ptrdiff_t;
    using pointer = const V*;
    using reference = V;
    const V* p;
    V operator*() const { return *p; }
    InputIt& operator++()
    {
        ++p;
        return *this;
    }
    InputIt operator++(int)
    {
        auto t = *this;
        ++p;
        return t;
    }
    bool operator==(const InputIt& o) const { return p == o.p; }
    bool operator!=(const InputIt& o) const { return p != o.p; }
};

u64 decode_len(const u8* p, unsigned L, bool big)
{
    u64 v = 0;
    for(unsigned i = 0; i < L; i++)
    {
        unsigned sh = big ? (L - 1 - i) * 8 : i * 8;
        v |= u64(p[i]) << sh;
    }
    return v;
}

void encode_len(u8* p, unsigned L, bool big, u64 v)
{
    for(unsigned i = 0; i < L; i++)
    {
        unsigned sh = big ? (L - 1 - i) * 8 : i * 8;
        p[i] = u8(v >> sh);
    }
}

#if __cplusplus >= 202002L
// ---- constant evaluation vs run time (C++20): the same scripted history, once inside a constexpr
// initialiser and once at run time, must leave identical bytes (sbepp.hpp has separate branches for
// constant evaluation, e.g. string_length and get/set_primitive).
#    include <array>
template<typename Len, sbepp::endian E>
constexpr std::array<char, 48> ce_script(int which)
{
    std::array<char, 48> b{};
    for(auto& c : b) c = '.';
    sbepp::detail::dynamic_array_ref<char, char, Len, E> v{b.data(), b.size()};
    v.clear();
    if(which == 0)
    {
        v.assign_string("abc");
        v.push_back('d');
        v.insert(v.begin() + 1, 'x');
        v.erase(v.begin());
        v.resize(6, 'q');
        v.pop_back();
        v.insert(v.begin() + 2, 3, 'm');
    }
    else if(which == 1)
    {
        v.assign(3, 'z');
        v.insert(v.begin() + 1, 2, 'y');
        v.erase(v.begin() + 1, v.begin() + 3);
        v.assign_string("hello");
        v.clear();
        v.assign_string("k");
        v.push_back('!');
    }
    else
    {
        v.assign({'a', 'b', 'c'});
        v.insert(v.end(), {'d', 'e'});
        v.resize(7);
        v.resize(2);
        constexpr std::array<char, 4> src{'w', 'x', 'y', 'z'};
        v.assign_range(src);
        v.push_back('!');
        v.insert(v.begin(), src.begin(), src.begin() + 2);
    }
    return b;
}

template<typename Len, sbepp::endian E>
bool ce_same()
{
    static constexpr auto c0 = ce_script<Len, E>(0);
    static constexpr auto c1 = ce_script<Len, E>(1);
    static constexpr auto c2 = ce_script<Len, E>(2);
    volatile int w0 = 0, w1 = 1, w2 = 2; // run-time arguments: no constant evaluation
    return ce_script<Len, E>(w0) == c0 && ce_script<Len, E>(w1) == c1 && ce_script<Len, E>(w2) == c2;
}

inline int ce_first_difference()
{
    int k = 0;
    if(!ce_same<sbepp::uint8_t, sbepp::endian::little>()) return k;
    k++;
    if(!ce_same<sbepp::uint8_t, sbepp::endian::big>()) return k;
    k++;
    if(!ce_same<sbepp::uint16_t, sbepp::endian::little>()) return k;
    k++;
    if(!ce_same<sbepp::uint16_t, sbepp::endian::big>()) return k;
    k++;
    if(!ce_same<sbepp::uint32_t, sbepp::endian::little>()) return k;
    k++;
    if(!ce_same<sbepp::uint32_t, sbepp::endian::big>()) return k;
    k++;
    if(!ce_same<sbepp::uint64_t, sbepp::endian::little>()) return k;
    k++;
    if(!ce_same<sbepp::uint64_t, sbepp::endian::big>()) return k;
    return -1;
}
#else
inline int ce_first_difference()
{
    return -1; // no constant evaluation of these functions before C++20
}
#endif

struct OpRes
{
    long long ret_index = -1; // returned iterator - begin(), or -1
    // observer results
    u64 size = 0, sbe_size = 0, size_bytes = 0, max_size = 0, raw_size = 0;
    bool empty = false;
    long long begin_off = -1, end_off = -1, data_off = -1, rb_off = -1, re_off = -1;
    int front = -1, back = -1, at = -1;
    int c_front = -1, c_back = -1, c_at = -1, raw_at = -1; // through a const-byte view / through raw()
    u64 c_size = 0;
    long long c_data_off = -1;
    bool observed = false;
};

struct Ctx
{
    const Plan* plan;
    bool checked_build;
    bool capacity_mode; // C10 relaxed oracle
    bool overmax = false; // capacity mode: growth beyond what the length type can express is offered too
    unsigned L;
    bool big;
    u64 buf;     // n: bytes the view is bound to
    u64 cap;     // payload capacity = buf - L (0 if buf < L)
    u64 max_size;
    // model
    bool synced = false;
    u64 S = 0;
    std::vector<u8> M;
    // bookkeeping
    sim::Hasher fp;
    Result res;
};

#if SBEPP_SIZE_CHECKS_ENABLED
constexpr bool kCheckedBuild = true;
#else
constexpr bool kCheckedBuild = false;
#endif

template<typename Byte, typename Value, typename Length, sbepp::endian E>
struct Runner
{
    using View = sbepp::detail::dynamic_array_ref<Byte, Value, Length, E>;
    using size_type = typename View::size_type;

    // Execute one mutating/observing op on the real view. Inputs are prepared
    // by the caller; nothing with a non-trivial destructor is created here.
    static void do_op(u8* frame, std::size_t nbytes, const Op& op, u64 pos, u64 pos2, u64 cnt, u8 valb, const u8* inraw,
                      std::size_t in_n, const char* cstr, OpRes& r)
    {
        const std::string& n = op.name;
        static std::vector<Value> vec; // static: survives a siglongjmp out of the op
        const Value* in = reinterpret_cast<const Value*>(inraw);
        vec.assign(in, in + in_n);
        const std::vector<Value>* invec = &vec;
        // sources whose elements are wider than the array's (every element converts to the same Value): valid for
        // std::vector<Value>::assign / insert, which convert element by element; and a non-contiguous source
        static std::vector<int> wide;
        static std::vector<short> wide16;
        static std::list<Value> lst;
        wide.assign(in, in + in_n);
        wide16.assign(in, in + in_n);
        lst.assign(in, in + in_n);
        const Value val = static_cast<Value>(valb);
        View v{reinterpret_cast<Byte*>(frame), nbytes};
        auto idx = [&](typename View::iterator it) { return (long long)(it - v.begin()); };
        if(n == "push_back")
            v.push_back(val);
        else if(n == "pop_back")
            v.pop_back();
        else if(n == "insert1")
            r.ret_index = idx(v.insert(v.begin() + pos, val));
        else if(n == "insertn")
            r.ret_index = idx(v.insert(v.begin() + pos, (size_type)cnt, val));
        else if(n == "insert1_self")
            r.ret_index = idx(v.insert(v.begin() + pos, v[(size_type)cnt])); // the argument aliases an element of the array
        else if(n == "insertn_self")
            r.ret_index = idx(v.insert(v.begin() + pos, (size_type)pos2, v[(size_type)cnt]));
        else if(n == "push_back_self")
            v.push_back(v[(size_type)cnt]);
        else if(n == "resize_v_self")
            v.resize((size_type)pos2, v[(size_type)cnt]);
        else if(n == "insert_fwd")
            r.ret_index = idx(v.insert(v.begin() + pos, in, in + in_n));
        else if(n == "insert_vec")
            r.ret_index = idx(v.insert(v.begin() + pos, invec->begin(), invec->end()));
        else if(n == "insert_inp")
            r.ret_index = idx(v.insert(v.begin() + pos, InputIt<Value>{in}, InputIt<Value>{in + in_n}));
        else if(n == "insert_il")
        {
            auto at = v.begin() + pos;
            switch(in_n)
            {
            case 0: r.ret_index = idx(v.insert(at, std::initializer_list<Value>{})); break;
            case 1: r.ret_index = idx(v.insert(at, {in[0]})); break;
            case 2: r.ret_index = idx(v.insert(at, {in[0], in[1]})); break;
            case 3: r.ret_index = idx(v.insert(at, {in[0], in[1], in[2]})); break;
            default: r.ret_index = idx(v.insert(at, {in[0], in[1], in[2], in[3]})); break;
            }
        }
        else if(n == "erase1")
            r.ret_index = idx(v.erase(v.begin() + pos));
        else if(n == "erase2")
            r.ret_index = idx(v.erase(v.begin() + pos, v.begin() + pos2));
        else if(n == "resize")
            v.resize((size_type)cnt);
        else if(n == "resize_v")
            v.resize((size_type)cnt, val);
        else if(n == "resize_di")
            v.resize((size_type)cnt, sbepp::default_init);
        else if(n == "assign_n")
            v.assign((size_type)cnt, val);
        else if(n == "assign_it")
            v.assign(in, in + in_n);
        else if(n == "assign_inp")
            v.assign(InputIt<Value>{in}, InputIt<Value>{in + in_n});
        else if(n == "assign_il")
        {
            switch(in_n)
            {
            case 0: v.assign(std::initializer_list<Value>{}); break;
            case 1: v.assign({in[0]}); break;
            case 2: v.assign({in[0], in[1]}); break;
            case 3: v.assign({in[0], in[1], in[2]}); break;
            default: v.assign({in[0], in[1], in[2], in[3]}); break;
            }
        }
        else if(n == "assign_string")
            v.assign_string(cstr);
        else if(n == "assign_range")
            v.assign_range(*invec);
        else if(n == "assign_range_wide")
        {
            if(in_n % 2)
                v.assign_range(wide);
            else
                v.assign_range(wide16);
        }
        else if(n == "assign_range_list")
            v.assign_range(lst);
        else if(n == "assign_it_wide")
            v.assign(wide.data(), wide.data() + wide.size());
        else if(n == "insert_wide")
            r.ret_index = idx(v.insert(v.begin() + pos, wide16.begin(), wide16.end()));
        else if(n == "insert_list")
            r.ret_index = idx(v.insert(v.begin() + pos, lst.begin(), lst.end()));
        else if(n == "clear")
            v.clear();
        else if(n == "observe")
        {
            r.observed = true;
            r.size = (u64)v.size();
            r.sbe_size = (u64)v.sbe_size().value();
            r.empty = v.empty();
            r.max_size = (u64)View::max_size();
            r.size_bytes = sbepp::size_bytes(v);
            r.raw_size = (u64)v.raw().size();
            auto base = reinterpret_cast<u8*>(frame);
            r.begin_off = reinterpret_cast<u8*>(v.begin()) - base;
            r.end_off = reinterpret_cast<u8*>(v.end()) - base;
            r.data_off = reinterpret_cast<u8*>(v.data()) - base;
            r.rb_off = reinterpret_cast<u8*>(v.rbegin().base()) - base;
            r.re_off = reinterpret_cast<u8*>(v.rend().base()) - base;
            // the same observers through a view over const bytes (a different instantiation)
            sbepp::detail::dynamic_array_ref<const Byte, Value, Length, E> cv{reinterpret_cast<const Byte*>(frame), nbytes};
            r.c_size = (u64)cv.size();
            r.c_data_off = reinterpret_cast<const u8*>(cv.data()) - base;
            if(!v.empty())
            {
                r.front = (u8)v.front();
                r.back = (u8)v.back();
                r.at = (u8)v[(size_type)(pos % v.size())];
                r.c_front = (u8)cv.front();
                r.c_back = (u8)cv.back();
                r.c_at = (u8)cv[(size_type)(pos % cv.size())];
                r.raw_at = (u8)v.raw()[(size_type)(pos % v.size())];
            }
        }
    }
};

struct Exec
{
    Ctx c;

    void fail(const std::string& cls, const Op& op, const std::string& detail)
    {
        if(c.res.violation) return;
        c.res.violation = true;
        c.res.signature = (c.capacity_mode ? std::string("C10:") : std::string("C13:")) + cls + ":" + op.name;
        c.res.detail = detail + " at op `" + sim::op_text(op) + "`";
    }
};

using DoOp = void (*)(u8*, std::size_t, const Op&, u64, u64, u64, u8, const u8*, std::size_t, const char*, OpRes&);

void run_plan(Exec& ex, DoOp do_op)
{
    Ctx& c = ex.c;
    const Plan& plan = *c.plan;
    const unsigned L = c.L;
    sim::arena_init();
    sim::arena_reset();

    // initial medium contents
    std::vector<u8> init;
    for(auto& kv : plan.head)
        if(kv.first == "init") init = sim::unhex(kv.second.size() && kv.second[0] == 'x' ? kv.second.substr(1) : kv.second);
    init.resize(c.buf, 0xEE);

    u8* p = sim::arena_place(c.buf);
    std::memcpy(p, init.data(), c.buf);
    u8 canary[sim::kCanary];
    for(std::size_t i = 0; i < sim::kCanary; i++) canary[i] = u8(0xC0 + i);
    std::memcpy(p - sim::kCanary, canary, sim::kCanary);

    auto resync = [&]() {
        if(c.buf < L)
        {
            c.synced = false;
            c.S = 0;
            c.M.clear();
            return;
        }
        c.S = decode_len(p, L, c.big);
        c.synced = c.S <= c.cap;
        if(c.synced)
            c.M.assign(p + L, p + L + c.S);
        else
            c.M.clear();
    };
    resync();
    if(!c.capacity_mode && !c.synced)
    {
        // control plans always start in a well-formed state
        c.res.signature = "HARNESS:bad-initial-state";
        c.res.violation = false;
        return;
    }

    std::vector<u8> before(c.buf), snap;
    std::size_t opi = 0;
    for(const Op& op : plan.ops)
    {
        opi++;
        if(c.res.violation) break;
        const std::string& n = op.name;
        if(n == "consteval_compare")
        {
            const int k = ce_first_difference();
            sim::stats().count("op.consteval_compare");
            if(k >= 0) ex.fail("consteval-differs", op, "a scripted history evaluated inside a constexpr initialiser leaves other bytes than the same history at run time (configuration " + std::to_string(k) + " of 8: length uint8/16/32/64 x little/big)");
            c.fp.add(opi);
            continue;
        }
        // ---- fault ops (medium-level) ----
        if(n == "corrupt_len")
        {
            if(c.capacity_mode && c.buf >= L)
            {
                encode_len(p, L, c.big, op.uarg(0));
                resync();
                sim::stats().count("fault.corrupt_len");
            }
            c.fp.add(opi);
            continue;
        }
        // ---- interpret arguments modulo the model state ----
        const u64 S = c.synced ? c.S : 0;
        // limit on the size the op may produce
        u64 lim = std::min<u64>(c.max_size, c.capacity_mode ? c.cap + 24 : c.cap);
        // "overmax" plans (capacity mode, narrow length types): operations whose resulting size is computed
        // *inside* the library (push_back, the insert overloads, assign from a source, assign_string) may ask
        // for more than the length type can express; sizes passed as size_type arguments cannot (the call
        // site would truncate them). The relaxed oracle applies: handler, or no access at or beyond p+n.
        const bool overmax = c.capacity_mode && c.overmax;
        const u64 lim_grow = overmax ? std::max<u64>(lim, c.cap + 24) : lim;
        std::vector<u8> inb = op.bytes;
        u64 pos = 0, pos2 = 0, cnt = 0;
        u8 valb = 0;
        if(n == "push_back") valb = (u8)op.uarg(0);
        else if(n == "insert1" || n == "resize_v" || n == "assign_n") valb = (u8)op.uarg(1);
        else if(n == "insertn") valb = (u8)op.uarg(2);
        bool skip = false;
        u64 newS = S;
        std::vector<u8> M2 = c.M;
        bool di = false; // new elements unspecified
        long long exp_ret = -1;
        auto clampin = [&](u64 room) {
            if(inb.size() > room) inb.resize(room);
        };
        if(n == "push_back")
        {
            if(S + 1 > lim_grow) skip = true;
            newS = S + 1;
            M2.push_back(valb);
        }
        else if(n == "pop_back")
        {
            if(S == 0) skip = true;
            else
            {
                newS = S - 1;
                M2.pop_back();
            }
        }
        else if(n == "insert1")
        {
            pos = op.uarg(0) % (S + 1);
            if(S + 1 > lim_grow) skip = true;
            newS = S + 1;
            M2.insert(M2.begin() + (long)pos, valb);
            exp_ret = (long long)pos;
        }
        else if(n == "insertn")
        {
            pos = op.uarg(0) % (S + 1);
            cnt = std::min<u64>({op.uarg(1), lim_grow > S ? lim_grow - S : 0, c.max_size});
            newS = S + cnt;
            M2.insert(M2.begin() + (long)pos, cnt, valb);
            exp_ret = (long long)pos;
        }
        else if(n == "insert1_self" || n == "insertn_self" || n == "push_back_self" || n == "resize_v_self")
        {
            // value arguments that refer to an element of the same array (valid for std::vector)
            if(S == 0) skip = true;
            else
            {
                cnt = op.uarg(1) % S; // source element
                const u8 sv = c.M[(std::size_t)cnt];
                if(n == "insert1_self")
                {
                    pos = op.uarg(0) % (S + 1);
                    if(S + 1 > lim) skip = true;
                    newS = S + 1;
                    M2.insert(M2.begin() + (long)pos, sv);
                    exp_ret = (long long)pos;
                }
                else if(n == "insertn_self")
                {
                    pos = op.uarg(0) % (S + 1);
                    pos2 = std::min<u64>(op.uarg(2) % 5, lim > S ? lim - S : 0);
                    newS = S + pos2;
                    M2.insert(M2.begin() + (long)pos, pos2, sv);
                    exp_ret = (long long)pos;
                }
                else if(n == "push_back_self")
                {
                    if(S + 1 > lim) skip = true;
                    newS = S + 1;
                    M2.push_back(sv);
                }
                else
                {
                    pos2 = op.uarg(0) % (lim + 1);
                    newS = pos2;
                    M2.resize(pos2, sv);
                }
            }
        }
        else if(n == "insert_fwd" || n == "insert_vec" || n == "insert_inp" || n == "insert_il" || n == "insert_wide" || n == "insert_list")
        {
            pos = op.uarg(0) % (S + 1);
            clampin(lim_grow > S ? lim_grow - S : 0);
            if(n == "insert_il") clampin(4);
            newS = S + inb.size();
            M2.insert(M2.begin() + (long)pos, inb.begin(), inb.end());
            exp_ret = (long long)pos;
        }
        else if(n == "erase1")
        {
            if(S == 0) skip = true;
            else
            {
                pos = op.uarg(0) % S;
                newS = S - 1;
                M2.erase(M2.begin() + (long)pos);
                exp_ret = (long long)pos;
            }
        }
        else if(n == "erase2")
        {
            pos = op.uarg(0) % (S + 1);
            // negative length = "up to end()"
            pos2 = op.arg(1) < 0 ? S : pos + op.uarg(1) % (S - pos + 1);
            newS = S - (pos2 - pos);
            M2.erase(M2.begin() + (long)pos, M2.begin() + (long)pos2);
            exp_ret = (long long)pos;
        }
        else if(n == "resize" || n == "resize_v" || n == "resize_di")
        {
            cnt = op.uarg(0) % (lim + 1);
            newS = cnt;
            di = n == "resize_di";
            M2.resize(cnt, n == "resize_v" ? valb : 0);
        }
        else if(n == "assign_n")
        {
            cnt = op.uarg(0) % (lim + 1);
            newS = cnt;
            M2.assign(cnt, valb);
        }
        else if(n == "assign_it" || n == "assign_inp" || n == "assign_il" || n == "assign_range" || n == "assign_string" || n == "assign_range_wide" || n == "assign_range_list" || n == "assign_it_wide")
        {
            clampin(lim_grow);
            if(n == "assign_il") clampin(4);
            if(n == "assign_string")
                for(auto& b : inb)
                    if(b == 0) b = 1;
            newS = inb.size();
            M2 = inb;
        }
        else if(n == "clear")
        {
            newS = 0;
            M2.clear();
        }
        else if(n == "observe")
        {
            pos = op.uarg(0);
        }
        else
        {
            c.res.signature = "HARNESS:unknown-op";
            return;
        }
        if(skip)
        {
            c.fp.add(opi * 1000003ULL);
            sim::stats().count("op.skipped");
            continue;
        }
        // inputs (built outside the guarded region)
        std::string cstr(inb.begin(), inb.end());
        static const u8 dummy{};
        const u8* inp = inb.empty() ? &dummy : inb.data();

        const bool in_bounds = c.synced && (u64)L + std::max(S, newS) <= c.buf && newS <= c.max_size;
        if(newS > c.max_size) sim::stats().count("fault.size_beyond_length_type");
        std::memcpy(before.data(), p, c.buf);
        OpRes r;
        Outcome o = sim::guarded([&] { do_op(p, (std::size_t)c.buf, op, pos, pos2, cnt, valb, inp, inb.size(), cstr.c_str(), r); });
        sim::stats().count(std::string("op.") + n);
        bool late_check = false;
        if(o.kind == Out::OOB && c.capacity_mode && !in_bounds)
        {
            // Was that a check placed after the access? Re-run from the same
            // pre-state with readable/writable slack behind the view.
            const std::size_t slack = 1 << 16;
            u8* q = sim::arena_place(c.buf, slack);
            std::memcpy(q, before.data(), c.buf);
            std::memset(q + c.buf, 0x5A, slack);
            OpRes r2;
            Outcome o2 = sim::guarded([&] { do_op(q, (std::size_t)c.buf, op, pos, pos2, cnt, valb, inp, inb.size(), cstr.c_str(), r2); });
            std::vector<u8> after(q, q + c.buf);
            p = sim::arena_place(c.buf);
            std::memcpy(p, after.data(), c.buf);
            std::memcpy(p - sim::kCanary, canary, sim::kCanary);
            if(o2.kind == Out::HANDLER)
            {
                late_check = true;
                sim::stats().count("probe.late_check(access-before-assert)");
                o = o2;
            }
            else
            {
                ex.fail("silent-oob", op, "access at offset " + std::to_string(o.off) + " beyond the view (n=" + std::to_string(c.buf) + ") and no assertion even with slack (second outcome " + sim::out_name(o2.kind) + ")");
                break;
            }
        }
        c.fp.add(opi);
        c.fp.add((u64)o.kind);
        c.fp.add((u64)r.ret_index);
        sim::stats().tuple(std::string(c.capacity_mode ? "cap" : "ctl") + "|L=" + kLenName[plan.geti("L")] + "|" + n + "|" + sim::out_name(o.kind) + "|old=" + (S == 0 ? "0" : S == lim ? "lim" : "mid") + "|new=" + (newS == 0 ? "0" : newS >= c.cap ? (newS == c.cap ? "cap" : ">cap") : "mid") + "|pos=" + (pos == 0 ? "b" : pos == S ? "e" : "m"));
        if(std::memcmp(p - sim::kCanary, canary, sim::kCanary) != 0)
        {
            ex.fail("canary", op, "bytes before the view were modified");
            break;
        }
        if(o.kind == Out::TIMEOUT)
        {
            ex.fail("timeout", op, "op did not finish");
            break;
        }
        if(in_bounds)
        {
            // strict oracle (C13 statement; and C10 converse: no spurious handler)
            if(o.kind == Out::HANDLER)
            {
                ex.fail(c.capacity_mode ? "spurious-handler" : "handler", op,
                        std::string("assertion `") + o.expr + "` in " + o.func + " although the op is valid for a vector and fits the buffer (size " + std::to_string(S) + " -> " + std::to_string(newS) + ", n=" + std::to_string(c.buf) + ")");
                break;
            }
            if(o.kind == Out::OOB)
            {
                ex.fail("oob", op, "access at offset " + std::to_string(o.off) + " outside the view (n=" + std::to_string(c.buf) + ")");
                break;
            }
            if(!c.capacity_mode || true)
            {
                const u64 gotS = decode_len(p, L, c.big);
                if(gotS != newS)
                {
                    ex.fail("size", op, "length prefix " + std::to_string(gotS) + " != vector size " + std::to_string(newS));
                    break;
                }
                if(di && newS > S)
                {
                    // new elements are unspecified: adopt them
                    for(u64 i = S; i < newS; i++) M2[i] = p[L + i];
                }
                if(newS && std::memcmp(p + L, M2.data(), newS) != 0)
                {
                    u64 i = 0;
                    while(p[L + i] == M2[i]) i++;
                    ex.fail("payload", op, "payload[" + std::to_string(i) + "]=" + std::to_string(p[L + i]) + " != vector[" + std::to_string(i) + "]=" + std::to_string(M2[i]));
                    break;
                }
                if(exp_ret >= 0 && r.ret_index != exp_ret)
                {
                    ex.fail("iterator", op, "returned iterator index " + std::to_string(r.ret_index) + " != " + std::to_string(exp_ret));
                    break;
                }
                const u64 keep_from = L + std::max(S, newS);
                if(keep_from < c.buf && std::memcmp(p + keep_from, before.data() + keep_from, c.buf - keep_from) != 0)
                {
                    u64 i = keep_from;
                    while(p[i] == before[i]) i++;
                    ex.fail("outside-write", op, "byte at offset " + std::to_string(i) + " (outside prefix + payload area in use, " + std::to_string(keep_from) + ") was modified");
                    break;
                }
                if(r.observed)
                {
                    bool ok = r.size == S && r.sbe_size == S && r.empty == (S == 0) && r.max_size == c.max_size && r.size_bytes == L + S && r.raw_size == S && r.begin_off == (long long)L && r.data_off == (long long)L && r.end_off == (long long)(L + S) && r.rb_off == (long long)(L + S) && r.re_off == (long long)L;
                    ok = ok && r.c_size == S && r.c_data_off == (long long)L;
                    if(ok && S)
                        ok = r.front == c.M[0] && r.back == c.M[S - 1] && r.at == c.M[pos % S] && r.c_front == c.M[0] && r.c_back == c.M[S - 1] && r.c_at == c.M[pos % S] && r.raw_at == c.M[pos % S];
                    if(!ok)
                    {
                        ex.fail("observer", op, "an observer disagrees with the vector model (size " + std::to_string(r.size) + " vs " + std::to_string(S) + ")");
                        break;
                    }
                    if(std::memcmp(p, before.data(), c.buf) != 0)
                    {
                        ex.fail("observer-write", op, "an observer modified the buffer");
                        break;
                    }
                }
                c.S = newS;
                c.M = M2;
                c.fp.add(newS);
                c.fp.add(sim::fnv1a(M2.data(), M2.size()));
            }
        }
        else
        {
            // capacity / hostile-prefix fault hit this op: relaxed oracle.
            // OOB was handled above (silent or late check); HANDLER and DONE
            // without touching the guard page are both fine.
            sim::stats().count(std::string("fault.capacity_exceeded.") + sim::out_name(o.kind));
            if(late_check) sim::stats().count("fault.capacity_exceeded.late");
            if(!c.capacity_mode)
            {
                ex.fail("harness", op, "control plan produced an out-of-capacity op");
                c.res.violation = false;
                c.res.signature = "HARNESS:control-exceeds";
                return;
            }
            resync();
            c.fp.add(c.S);
        }
    }
    c.res.fingerprint = c.fp.h;
}

template<typename Byte, typename Value, typename Length>
void disp_e(Exec& ex)
{
    if(ex.c.big)
        run_plan(ex, &Runner<Byte, Value, Length, sbepp::endian::big>::do_op);
    else
        run_plan(ex, &Runner<Byte, Value, Length, sbepp::endian::little>::do_op);
}

template<typename Byte, typename Value>
void disp_l(Exec& ex)
{
    switch(ex.c.L)
    {
    case 1: disp_e<Byte, Value, sbepp::uint8_t>(ex); break;
    case 2: disp_e<Byte, Value, sbepp::uint16_t>(ex); break;
    case 4: disp_e<Byte, Value, sbepp::uint32_t>(ex); break;
    default: disp_e<Byte, Value, sbepp::uint64_t>(ex); break;
    }
}

template<typename Byte>
void disp_v(Exec& ex, int v)
{
    switch(v)
    {
    case 0: disp_l<Byte, char>(ex); break;
    case 1: disp_l<Byte, unsigned char>(ex); break;
    default: disp_l<Byte, signed char>(ex); break;
    }
}

Result exec_plan(const Plan& plan)
{
    Exec ex;
    Ctx& c = ex.c;
    c.plan = &plan;
    c.checked_build = kCheckedBuild;
    c.capacity_mode = plan.get("mode") == "capacity";
    c.overmax = plan.geti("overmax") != 0;
    int li = (int)plan.geti("L");
    c.L = kLenSize[li & 3];
    c.big = plan.geti("E") != 0;
    c.buf = (u64)plan.geti("buf");
    c.cap = c.buf >= c.L ? c.buf - c.L : 0;
    c.max_size = kLenMax[li & 3];
    if(c.capacity_mode && !kCheckedBuild)
    {
        Result r;
        r.signature = "HARNESS:capacity-mode-needs-checked-build";
        return r;
    }
    int b = (int)plan.geti("B"), v = (int)plan.geti("V");
    switch(b)
    {
    case 0: disp_v<char>(ex, v); break;
    case 1: disp_v<unsigned char>(ex, v); break;
    default: disp_v<std::byte>(ex, v); break;
    }
    return c.res;
}

// ---------------------------------------------------------------- generator
const char* kMutators[] = {"push_back", "pop_back", "insert1", "insertn", "insert_fwd", "insert_vec", "insert_inp", "insert_il",
                           "erase1", "erase2", "resize", "resize_v", "resize_di", "assign_n", "assign_it", "assign_inp",
                           "assign_il", "assign_string", "assign_range", "clear", "observe", "insert1_self", "insertn_self", "push_back_self", "resize_v_self",
                           "assign_range_wide", "assign_range_list", "assign_it_wide", "insert_wide", "insert_list"};
constexpr int kNumMut = sizeof(kMutators) / sizeof(kMutators[0]);

Plan gen_plan(u64 seed, const std::string& prop, const std::string& tier)
{
    (void)tier;
    sim::Rng root(seed);
    sim::Rng cfg = root.fork("cfg"), ini = root.fork("init"), wl = root.fork("workload"), fl = root.fork("faults");
    Plan p;
    const bool capmode = prop == "C10";
    p.set("property", prop);
    p.set("engine", "dynarr");
    p.set("build", kCheckedBuild ? "checked" : "unchecked");
    p.set("mode", capmode ? "capacity" : "control");
    int li = (int)cfg.below(4);
    p.seti("L", li);
    p.seti("E", (long long)cfg.below(2));
    p.seti("V", (long long)cfg.below(3));
    p.seti("B", (long long)cfg.below(3));
    const unsigned L = kLenSize[li];
    // capacity: small values most of the time so that boundaries are hit
    u64 cap;
    switch(cfg.below(5))
    {
    case 0: cap = cfg.below(4); break;
    case 1: cap = cfg.range(4, 12); break;
    case 2: cap = cfg.range(12, 40); break;
    case 3: cap = cfg.range(40, 120); break;
    default: cap = li == 0 ? cfg.range(250, 300) : cfg.range(120, 400); break;
    }
    bool big_plan = false;
    bool overmax = false;
    {
        // capacity mode, 8- and 16-bit length types: arrays at or near max_size() in a buffer that ends right
        // there, and growth beyond what the length type can express (drawn from a fork: other plans stay as they were)
        sim::Rng om = root.fork("overmax");
        if(capmode && li <= 1 && om.chance(1, li == 0 ? 5 : 40))
        {
            overmax = true;
            cap = kLenMax[li] - 6 + om.below(30);
            p.seti("overmax", 1);
        }
    }
    if(!capmode && li >= 1 && cfg.chance(1, 40))
    {
        // sizes around 65535: carries between the bytes of a multi-byte length prefix
        cap = 65600;
        big_plan = true;
    }
    u64 buf = L + cap;
    if(capmode && cfg.chance(1, 12)) buf = cfg.below(L); // view shorter than the prefix itself
    p.seti("buf", (long long)buf);
    // swarm: enable a random subset of op kinds for this run
    std::vector<int> enabled;
    for(int i = 0; i < kNumMut; i++)
        if(cfg.chance(3, 5)) enabled.push_back(i);
    if(enabled.empty()) enabled.push_back((int)cfg.below(kNumMut));
    // initial medium: prefix + payload + stale bytes
    std::vector<u8> init(buf);
    for(auto& b : init) b = (u8)ini.next();
    const u64 lim = std::min<u64>(kLenMax[li], cap);
    u64 s0 = ini.chance(1, 3) ? 0 : ini.chance(1, 4) ? lim : ini.below(lim + 1);
    if(big_plan) s0 = std::min<u64>(lim, 65520 + ini.below(30));
    if(overmax && root.fork("overmax-size").chance(2, 3)) s0 = lim - std::min<u64>(lim, root.fork("overmax-size2").below(5));
    if(buf >= L) encode_len(init.data(), L, p.geti("E") != 0, s0);
    p.set("init", "x" + sim::hex(init));
    if(!capmode && seed % 512 == 7)
    {
        Op ce;
        ce.name = "consteval_compare";
        p.ops.push_back(ce);
    }
    const int nops = (int)wl.range(1, wl.chance(1, 4) ? 60 : 12);
    for(int i = 0; i < nops; i++)
    {
        Op o;
        o.name = kMutators[enabled[wl.below(enabled.size())]];
        const std::string& n = o.name;
        auto small = [&]() -> long long {
            // positions / counts: biased to 0, end and small values
            switch(wl.below(4))
            {
            case 0: return 0;
            case 1: return (long long)wl.below(4);
            case 2: return (long long)wl.below(cap + 2);
            default: return (long long)wl.below(1000);
            }
        };
        auto blob = [&](std::size_t maxn) {
            std::size_t k = (std::size_t)wl.below(maxn + 1);
            o.has_bytes = true;
            o.bytes.resize(k);
            for(auto& b : o.bytes) b = (u8)wl.next();
        };
        if(n == "push_back")
            o.a = {(long long)wl.below(256)};
        else if(n == "insert1")
            o.a = {small(), (long long)wl.below(256)};
        else if(n == "insertn")
            o.a = {small(), small(), (long long)wl.below(256)};
        else if(n == "insert_fwd" || n == "insert_vec" || n == "insert_inp" || n == "insert_wide" || n == "insert_list")
        {
            o.a = {small()};
            blob(wl.chance(1, 3) ? (std::size_t)cap + 8 : 6);
        }
        else if(n == "insert_il")
        {
            o.a = {small()};
            blob(4);
        }
        else if(n == "insert1_self" || n == "push_back_self" || n == "resize_v_self")
            o.a = {small(), small()};
        else if(n == "insertn_self")
            o.a = {small(), small(), small()};
        else if(n == "erase1")
            o.a = {small()};
        else if(n == "erase2")
        {
            // second arg = range length modulo what is left; biased to "up to end()"
            long long len = wl.chance(1, 3) ? (long long)wl.below(3) : small();
            o.a = {small(), len};
            if(wl.chance(1, 3)) o.a[1] = -1; // interpreted as the largest residue: erase up to end()
        }
        else if(n == "resize" || n == "resize_di")
            o.a = {small()};
        else if(n == "resize_v" || n == "assign_n")
            o.a = {small(), (long long)wl.below(256)};
        else if(n == "assign_it" || n == "assign_inp" || n == "assign_range" || n == "assign_string" || n == "assign_range_wide" || n == "assign_range_list" || n == "assign_it_wide")
            blob(wl.chance(1, 3) ? (std::size_t)cap + 8 : 6);
        else if(n == "assign_il")
            blob(4);
        else if(n == "observe")
            o.a = {small()};
        p.ops.push_back(o);
        // medium fault: corrupt the stored length prefix (capacity mode only)
        if(capmode && fl.chance(1, 25))
        {
            Op f;
            f.name = "corrupt_len";
            u64 v;
            switch(fl.below(5))
            {
            case 0: v = cap + 1; break;
            case 1: v = kLenMax[li]; break;
            case 2: v = kLenMax[li] + 1 - fl.below(9); break; // the null value (all ones) and its neighbours
            case 3: v = cap + fl.below(1000); break;
            default: v = fl.next() & (li == 3 ? ~0ULL : ((1ULL << (8 * L)) - 1)); break;
            }
            // no cap for 64-bit lengths: with the fixed address space a wild access is a reproducible outcome,
            // and lengths close to 2^64 are exactly where prefix + length wraps
            f.a = {(long long)v};
            p.ops.push_back(f);
        }
    }
    return p;
}

std::vector<Op> shrink_op(const Plan&, const Op& o)
{
    std::vector<Op> out;
    // shrink numeric args toward 0 and blobs toward shorter/zero
    for(std::size_t i = 0; i < o.a.size(); i++)
    {
        if(o.a[i] != 0)
        {
            Op c = o;
            c.a[i] = 0;
            out.push_back(c);
            c = o;
            c.a[i] = o.a[i] / 2;
            out.push_back(c);
            if(o.a[i] > 0)
            {
                c = o;
                c.a[i] = o.a[i] - 1;
                out.push_back(c);
            }
        }
    }
    if(o.has_bytes && !o.bytes.empty())
    {
        Op c = o;
        c.bytes.resize(o.bytes.size() / 2);
        out.push_back(c);
        c = o;
        c.bytes.pop_back();
        out.push_back(c);
        c = o;
        bool ch = false;
        for(auto& b : c.bytes)
            if(b != 0x41)
            {
                b = 0x41;
                ch = true;
            }
        if(ch) out.push_back(c);
    }
    return out;
}

std::vector<Plan> shrink_head(const Plan& p)
{
    std::vector<Plan> out;
    // smaller buffer; simpler initial content
    long long buf = p.geti("buf");
    long long L = kLenSize[p.geti("L") & 3];
    auto init = sim::unhex(p.get("init").substr(1));
    if(buf > L)
    {
        for(long long nb : {L, L + (buf - L) / 2, buf - 1})
        {
            if(nb >= buf || nb < 0) continue;
            Plan q = p;
            q.seti("buf", nb);
            auto i2 = init;
            i2.resize((std::size_t)nb);
            // keep the initial size consistent with the new capacity
            u64 s0 = buf >= L ? decode_len(init.data(), (unsigned)L, p.geti("E") != 0) : 0;
            if(s0 > (u64)(nb - L)) encode_len(i2.data(), (unsigned)L, p.geti("E") != 0, (u64)(nb - L));
            q.set("init", "x" + sim::hex(i2));
            out.push_back(q);
        }
    }
    if(buf >= L)
    {
        u64 s0 = decode_len(init.data(), (unsigned)L, p.geti("E") != 0);
        if(s0 != 0 && s0 <= (u64)(buf - L))
        {
            Plan q = p;
            auto i2 = init;
            encode_len(i2.data(), (unsigned)L, p.geti("E") != 0, 0);
            q.set("init", "x" + sim::hex(i2));
            out.push_back(q);
        }
    }
    for(const char* k : {"V", "B", "E", "L"})
    {
        if(p.geti(k) != 0 && std::string(k) != "L")
        {
            Plan q = p;
            q.seti(k, 0);
            if(std::string(k) == "E")
            {
                // re-encode the prefix in the other byte order
                auto i2 = init;
                if(buf >= L)
                {
                    u64 s0 = decode_len(init.data(), (unsigned)L, true);
                    encode_len(i2.data(), (unsigned)L, false, s0);
                    q.set("init", "x" + sim::hex(i2));
                }
            }
            out.push_back(q);
        }
    }
    return out;
}
} // namespace

int main(int argc, char** argv)
{
    sim::fix_address_space(argv);
    sim::Engine e;
    e.gen = gen_plan;
    e.exec = exec_plan;
    e.shrink_op = shrink_op;
    e.shrink_head = shrink_head;
    return sim::worker_main(argc, argv, e);
}
