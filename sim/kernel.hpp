// Simulation kernel shared by the engines: plans (explicit op lists that double
// as replay files), run results with fingerprints, ddmin minimiser, and the
// worker command line (run / exec / min).
#pragma once
#include "rng.hpp"

#include <algorithm>
#include <cinttypes>
#include <cstdint>
#include <cstdio>
#include <cstdlib>
#include <cstring>
#include <fstream>
#include <functional>
#include <map>
#include <set>
#include <sstream>
#include <string>
#include <sys/wait.h>
#include <unistd.h>
#include <vector>

namespace sim
{
struct Op
{
    std::string name;
    std::vector<long long> a;
    std::vector<unsigned char> bytes;
    bool has_bytes = false;
    std::vector<std::string> s; // string arguments, written as @text (no spaces)
    const std::string& sarg(std::size_t i) const
    {
        static const std::string empty;
        return i < s.size() ? s[i] : empty;
    }

    long long arg(std::size_t i, long long dflt = 0) const { return i < a.size() ? a[i] : dflt; }
    unsigned long long uarg(std::size_t i, unsigned long long dflt = 0) const
    {
        return i < a.size() ? static_cast<unsigned long long>(a[i]) : dflt;
    }
    bool operator==(const Op& o) const { return name == o.name && a == o.a && bytes == o.bytes && has_bytes == o.has_bytes && s == o.s; }
};

inline std::string hex(const std::vector<unsigned char>& b)
{
    static const char* d = "0123456789abcdef";
    std::string s;
    for(auto c : b)
    {
        s += d[c >> 4];
        s += d[c & 15];
    }
    return s;
}

inline std::vector<unsigned char> unhex(const std::string& s)
{
    std::vector<unsigned char> b;
    auto v = [](char c) { return c <= '9' ? c - '0' : (c | 32) - 'a' + 10; };
    for(std::size_t i = 0; i + 1 < s.size(); i += 2) b.push_back((unsigned char)(v(s[i]) * 16 + v(s[i + 1])));
    return b;
}

inline std::string op_text(const Op& o)
{
    std::string s = o.name;
    for(auto& t : o.s) s += " @" + t;
    for(auto v : o.a)
    {
        // unsigned values above LLONG_MAX are printed as negative; parsing is symmetric
        s += " " + std::to_string(v);
    }
    if(o.has_bytes) s += " x" + hex(o.bytes);
    return s;
}

struct Plan
{
    // ordered header: property, engine, cfg keys... (string -> string)
    std::vector<std::pair<std::string, std::string>> head;
    std::vector<Op> ops;

    std::string get(const std::string& k, const std::string& d = "") const
    {
        for(auto& kv : head)
            if(kv.first == k) return kv.second;
        return d;
    }
    long long geti(const std::string& k, long long d = 0) const
    {
        auto s = get(k);
        return s.empty() ? d : std::strtoll(s.c_str(), nullptr, 0);
    }
    void set(const std::string& k, const std::string& v)
    {
        for(auto& kv : head)
            if(kv.first == k)
            {
                kv.second = v;
                return;
            }
        head.emplace_back(k, v);
    }
    void seti(const std::string& k, long long v) { set(k, std::to_string(v)); }

    std::string text() const
    {
        std::string s;
        for(auto& kv : head) s += kv.first + " " + kv.second + "\n";
        for(auto& o : ops) s += "op " + op_text(o) + "\n";
        return s;
    }
    static Plan parse(const std::string& txt)
    {
        Plan p;
        std::istringstream is(txt);
        std::string line;
        while(std::getline(is, line))
        {
            if(line.empty() || line[0] == '#') continue;
            std::istringstream ls(line);
            std::string k;
            ls >> k;
            if(k == "op")
            {
                Op o;
                ls >> o.name;
                std::string t;
                while(ls >> t)
                {
                    if(t[0] == '@')
                        o.s.push_back(t.substr(1));
                    else if(t[0] == 'x')
                    {
                        o.has_bytes = true;
                        o.bytes = unhex(t.substr(1));
                    }
                    else
                        o.a.push_back(std::strtoll(t.c_str(), nullptr, 0));
                }
                p.ops.push_back(o);
            }
            else
            {
                std::string rest;
                std::getline(ls, rest);
                if(!rest.empty() && rest[0] == ' ') rest.erase(0, 1);
                p.head.emplace_back(k, rest);
            }
        }
        return p;
    }
    static Plan load(const std::string& path)
    {
        std::ifstream f(path);
        std::stringstream ss;
        ss << f.rdbuf();
        return parse(ss.str());
    }
    void save(const std::string& path) const
    {
        std::ofstream f(path);
        f << text();
    }
};

struct Result
{
    bool violation = false;
    std::string signature; // violation class, stable under minimisation
    std::string detail;    // human readable
    std::uint64_t fingerprint = 0;
    std::vector<std::string> known; // known-finding signatures matched (not violations)
};

// Per-process statistics, printed by the worker at the end of a batch.
struct Stats
{
    std::map<std::string, std::uint64_t> counters;
    std::set<std::string> tuples; // distinct coverage tuples
    std::vector<std::string> samples;
    void count(const std::string& k, std::uint64_t n = 1) { counters[k] += n; }
    void tuple(const std::string& t) { tuples.insert(t); }
};

inline Stats& stats()
{
    static Stats s;
    return s;
}

// command-line options of the worker (--key value), visible to engines
inline std::map<std::string, std::string>& options()
{
    static std::map<std::string, std::string> o;
    return o;
}

// Crash-class outcomes (assert, abort, SIGSEGV, CPU budget) end the process on
// purpose; before dying the result is delivered according to the mode the
// process is in.
struct CrashCtx
{
    int mode = 0; // 0 none, 1 run (print V line, exit 98), 2 forked child (pipe), 3 exec (RESULT line, exit 1)
    int pipe_fd = -1;
    std::string plan_text, path, prop;
    std::uint64_t seed = 0;
    void (*before_report)() = nullptr; // engine hook, e.g. restore a redirected stdout
};
inline CrashCtx& crash_ctx()
{
    static CrashCtx c;
    return c;
}
inline void print_stats();
[[noreturn]] inline void crash_report(const std::string& signature, const std::string& detail_in)
{
    auto& c = crash_ctx();
    if(c.before_report) c.before_report();
    std::string detail = detail_in;
    std::replace(detail.begin(), detail.end(), '\n', ' ');
    if(c.mode == 2)
    {
        std::string s = "1\n" + signature + "\n0\n" + detail;
        size_t off = 0;
        while(off < s.size())
        {
            ssize_t w = ::write(c.pipe_fd, s.data() + off, s.size() - off);
            if(w <= 0) break;
            off += (size_t)w;
        }
        _exit(0);
    }
    if(c.mode == 1)
    {
        FILE* f = fopen(c.path.c_str(), "w");
        if(f)
        {
            fprintf(f, "%sseed %" PRIu64 "\nexpect %s\n", c.plan_text.c_str(), c.seed, signature.c_str());
            fclose(f);
        }
        printf("V %" PRIu64 " %016" PRIx64 " %s %s | %s\n", c.seed, (std::uint64_t)0, c.path.c_str(), signature.c_str(), detail.c_str());
        print_stats();
        printf("RESTART\n");
        fflush(stdout);
        _exit(98);
    }
    printf("RESULT violation=1 fingerprint=%016" PRIx64 " signature=%s\n", (std::uint64_t)0, signature.c_str());
    printf("DETAIL %s\n", detail.c_str());
    fflush(stdout);
    _exit(1);
}

struct Engine
{
    std::function<Plan(std::uint64_t seed, const std::string& prop, const std::string& tier)> gen;
    std::function<Result(const Plan&)> exec;
    // candidates simpler than `o` (argument shrinking); may be empty
    std::function<std::vector<Op>(const Plan&, const Op&)> shrink_op;
    // candidates for simpler plan heads (e.g. smaller capacity); may be empty
    std::function<std::vector<Plan>(const Plan&)> shrink_head;
    // turn a sweep plan into a single-point plan using what the failing run reported
    std::function<Plan(const Plan&, const Result&)> refine;
};

// Execute in a forked child so that crash-class outcomes become results.
inline Result exec_forked(const Engine& e, const Plan& p)
{
    int fd[2];
    if(pipe(fd) != 0) _exit(3);
    fflush(stdout);
    fflush(stderr);
    pid_t pid = fork();
    if(pid == 0)
    {
        close(fd[0]);
        crash_ctx().mode = 2;
        crash_ctx().pipe_fd = fd[1];
        Result r = e.exec(p);
        std::string s = std::string(r.violation ? "1" : "0") + "\n" + r.signature + "\n" + std::to_string(r.fingerprint) + "\n" + r.detail;
        size_t off = 0;
        while(off < s.size())
        {
            ssize_t w = write(fd[1], s.data() + off, s.size() - off);
            if(w <= 0) break;
            off += (size_t)w;
        }
        _exit(0);
    }
    close(fd[1]);
    std::string s;
    char buf[4096];
    ssize_t n;
    while((n = read(fd[0], buf, sizeof buf)) > 0) s.append(buf, (size_t)n);
    close(fd[0]);
    int st = 0;
    waitpid(pid, &st, 0);
    Result r;
    if(WIFSIGNALED(st) || (WIFEXITED(st) && WEXITSTATUS(st) != 0))
    {
        r.violation = true;
        if(WIFSIGNALED(st))
            r.signature = "CRASH:signal" + std::to_string(WTERMSIG(st));
        else
            r.signature = "CRASH:exit" + std::to_string(WEXITSTATUS(st));
        r.detail = "process running the plan died";
        return r;
    }
    std::istringstream is(s);
    std::string l;
    std::getline(is, l);
    r.violation = l == "1";
    std::getline(is, r.signature);
    std::getline(is, l);
    r.fingerprint = std::strtoull(l.c_str(), nullptr, 10);
    std::stringstream rest;
    rest << is.rdbuf();
    r.detail = rest.str();
    return r;
}

struct MinStats
{
    int reruns = 0;
};

// ddmin over the op list, then argument shrinking, restricted to the same
// violation signature.
inline Plan minimise(const Engine& e, Plan p, const std::string& signature, MinStats& ms, int budget = 600)
{
    auto fails = [&](const Plan& q) {
        if(ms.reruns >= budget) return false;
        ms.reruns++;
        Result r = exec_forked(e, q);
        return r.violation && r.signature == signature;
    };
    // 1. ddmin on ops
    std::size_t n = 2;
    while(p.ops.size() >= 1 && ms.reruns < budget)
    {
        std::size_t len = p.ops.size();
        if(n > len) n = len;
        std::size_t chunk = (len + n - 1) / n;
        bool reduced = false;
        for(std::size_t start = 0; start < len; start += chunk)
        {
            Plan q = p;
            q.ops.erase(q.ops.begin() + (long)start, q.ops.begin() + (long)std::min(len, start + chunk));
            if(fails(q))
            {
                p = q;
                n = std::max<std::size_t>(n - 1, 2);
                reduced = true;
                break;
            }
        }
        if(!reduced)
        {
            if(chunk == 1) break;
            n = std::min(len, n * 2);
        }
    }
    // 2. head shrinking and argument shrinking to a fixpoint
    bool progress = true;
    while(progress && ms.reruns < budget)
    {
        progress = false;
        if(e.shrink_head)
        {
            for(auto& q : e.shrink_head(p))
            {
                if(fails(q))
                {
                    p = q;
                    progress = true;
                    break;
                }
            }
        }
        for(std::size_t i = 0; i < p.ops.size() && e.shrink_op; i++)
        {
            for(auto& c : e.shrink_op(p, p.ops[i]))
            {
                if(c == p.ops[i]) continue;
                Plan q = p;
                q.ops[i] = c;
                if(fails(q))
                {
                    p = q;
                    progress = true;
                    break;
                }
            }
        }
    }
    return p;
}

inline void print_stats()
{
    auto& s = stats();
    for(auto& kv : s.counters) printf("C %s %" PRIu64 "\n", kv.first.c_str(), kv.second);
    for(auto& t : s.tuples) printf("T %s\n", t.c_str());
    for(auto& t : s.samples) printf("S %s\n", t.c_str());
    fflush(stdout);
}

// Worker command line:
//   run  --prop P --tier T --from A --count N --stride S --outdir D
//   exec <plan>             -> prints RESULT lines, exit 0 (held) / 1 (violation)
//   min  <plan> <out>       -> minimises a violating plan (same signature)
//   gen  --prop P --tier T --seed N  -> prints the plan
inline int worker_main(int argc, char** argv, const Engine& e)
{
    std::map<std::string, std::string> opt;
    std::vector<std::string> pos;
    for(int i = 1; i < argc; i++)
    {
        std::string a = argv[i];
        if(a.rfind("--", 0) == 0 && i + 1 < argc)
        {
            opt[a.substr(2)] = argv[i + 1];
            i++;
        }
        else
            pos.push_back(a);
    }
    options() = opt;
    if(pos.empty())
    {
        fprintf(stderr, "usage: run|exec|min|gen ...\n");
        return 2;
    }
    const std::string mode = pos[0];
    const std::string prop = opt.count("prop") ? opt["prop"] : "";
    const std::string tier = opt.count("tier") ? opt["tier"] : "quick";
    if(mode == "gen")
    {
        Plan p = e.gen(std::strtoull(opt["seed"].c_str(), nullptr, 0), prop, tier);
        fputs(p.text().c_str(), stdout);
        return 0;
    }
    if(mode == "run")
    {
        std::uint64_t from = std::strtoull(opt["from"].c_str(), nullptr, 0);
        std::uint64_t count = std::strtoull(opt["count"].c_str(), nullptr, 0);
        std::uint64_t stride = opt.count("stride") ? std::strtoull(opt["stride"].c_str(), nullptr, 0) : 1;
        std::string outdir = opt.count("outdir") ? opt["outdir"] : ".";
        int want_samples = opt.count("samples") ? atoi(opt["samples"].c_str()) : 2;
        for(std::uint64_t k = 0; k < count; k++)
        {
            std::uint64_t seed = from + k * stride;
            printf("START %" PRIu64 "\n", seed);
            fflush(stdout);
            Plan p = e.gen(seed, prop, tier);
            {
                auto& cc = crash_ctx();
                cc.mode = 1;
                cc.seed = seed;
                cc.prop = prop;
                cc.plan_text = p.text();
                cc.path = outdir + "/viol-" + prop + "-" + std::to_string(seed) + ".plan";
            }
            Result r = e.exec(p);
            if((int)stats().samples.size() < want_samples && k % 97 == 0)
            {
                std::string t = p.text();
                std::replace(t.begin(), t.end(), '\n', ';');
                stats().samples.push_back(t);
            }
            for(auto& kf : r.known) printf("K %" PRIu64 " %s\n", seed, kf.c_str());
            if(r.violation)
            {
                std::string path = outdir + "/viol-" + prop + "-" + std::to_string(seed) + ".plan";
                Plan q = p;
                q.set("seed", std::to_string(seed));
                q.set("expect", r.signature);
                q.save(path);
                std::string d = r.detail;
                std::replace(d.begin(), d.end(), '\n', ' ');
                printf("V %" PRIu64 " %016" PRIx64 " %s %s | %s\n", seed, r.fingerprint, path.c_str(), r.signature.c_str(), d.c_str());
                if(r.signature.find("timeout") != std::string::npos || r.signature.find("TIMEOUT") != std::string::npos || r.signature.find("HANG") != std::string::npos)
                {
                    // the code under test did not return within its CPU budget: the worker ends here, like after a
                    // crash-class outcome, so that the orchestrator sees it now and can stop offering it more seeds
                    print_stats();
                    printf("END\n");
                    fflush(stdout);
                    _exit(98);
                }
            }
            else
            {
                // a plan that ended without a verdict for a reason of the harness's own (no reference, unknown op,
                // bad frame specification ...) must not pass for a clean run: counted, the orchestrator exits 2
                if(r.signature.rfind("HARNESS", 0) == 0) stats().count("harness." + r.signature);
                printf("R %" PRIu64 " %016" PRIx64 "\n", seed, r.fingerprint);
            }
            fflush(stdout);
        }
        print_stats();
        printf("END\n");
        fflush(stdout);
        return 0;
    }
    if(mode == "exec" && pos.size() >= 2)
    {
        Plan p = Plan::load(pos[1]);
        crash_ctx().mode = 3;
        Result r = e.exec(p);
        for(auto& kf : r.known) printf("K 0 %s\n", kf.c_str());
        printf("RESULT violation=%d fingerprint=%016" PRIx64 " signature=%s\n", r.violation ? 1 : 0, r.fingerprint, r.signature.c_str());
        if(!r.detail.empty()) printf("DETAIL %s\n", r.detail.c_str());
        print_stats();
        fflush(stdout);
        return r.violation ? 1 : 0;
    }
    if(mode == "min" && pos.size() >= 3)
    {
        Plan p = Plan::load(pos[1]);
        Result r0 = exec_forked(e, p);
        if(!r0.violation)
        {
            printf("MIN not-failing\n");
            return 2;
        }
        MinStats ms;
        if(e.refine)
        {
            Plan rp = e.refine(p, r0);
            Result r1 = exec_forked(e, rp);
            if(r1.violation && r1.signature == r0.signature) p = rp;
        }
        std::size_t before = p.ops.size();
        Plan q = minimise(e, p, r0.signature, ms, opt.count("budget") ? atoi(opt["budget"].c_str()) : 600);
        q.set("expect", r0.signature);
        q.save(pos[2]);
        printf("MIN ops %zu -> %zu reruns %d signature=%s\n", before, q.ops.size(), ms.reruns, r0.signature.c_str());
        return 0;
    }
    fprintf(stderr, "bad command line\n");
    return 2;
}
} // namespace sim
