// Guard-paged arena + outcome classification for code under test.
//
// One big PROT_NONE reservation at a fixed address; a 1 MiB read-write window
// inside it. A frame of n bytes is placed so that its last byte is the last
// writable byte: any access at offset >= n (up to 2^36) faults and is turned
// into Outcome::OOB(offset) by siglongjmp-ing out of the SIGSEGV handler.
// sbepp::assertion_failed (defined by the harness) lands in the same place
// with Outcome::HANDLER. A CPU budget (ITIMER_VIRTUAL) gives Outcome::TIMEOUT.
#pragma once
#include <csetjmp>
#include <csignal>
#include <cstdint>
#include <cstdio>
#include <cstdlib>
#include <cstring>
#include <sys/mman.h>
#include <sys/personality.h>
#include <sys/time.h>
#include <unistd.h>

namespace sim
{
enum class Out
{
    DONE,
    HANDLER,
    OOB,
    TIMEOUT
};

inline const char* out_name(Out o)
{
    switch(o)
    {
    case Out::DONE: return "DONE";
    case Out::HANDLER: return "HANDLER";
    case Out::OOB: return "OOB";
    case Out::TIMEOUT: return "TIMEOUT";
    }
    return "?";
}

struct Outcome
{
    Out kind = Out::DONE;
    long long off = 0; // OOB: fault address - frame start
    char expr[256] = {0};
    char func[96] = {0};
    long line = 0;
};

struct ArenaState
{
    unsigned char* res_begin = nullptr; // start of reservation (PROT_NONE pre-guard)
    unsigned char* rw_begin = nullptr;
    unsigned char* rw_end = nullptr;
    unsigned char* res_end = nullptr;
    unsigned char* frame = nullptr; // current frame start (for OOB offsets)
    sigjmp_buf jb;
    volatile sig_atomic_t armed = 0;
    Outcome pending;
};

inline ArenaState& arena()
{
    static ArenaState a;
    return a;
}

constexpr std::uintptr_t kArenaBase = 0x200000000000ULL;
constexpr std::size_t kPre = 1u << 20;
constexpr std::size_t kRw = 1u << 20;
constexpr std::size_t kPost = 1ull << 36;
constexpr std::size_t kCanary = 16;

// Re-exec once with ASLR disabled so that even wild pointers (wrapped 64-bit
// arithmetic on hostile lengths) land on the same page in every run.
inline void fix_address_space(char** argv)
{
    if(getenv("VERIF_NOASLR")) return;
    setenv("VERIF_NOASLR", "1", 1);
    int cur = personality(0xffffffff);
    if(cur != -1 && personality(cur | ADDR_NO_RANDOMIZE) != -1)
    {
        execv("/proc/self/exe", argv);
    }
    // fall through: keep going with ASLR (arena address is fixed anyway)
}

inline void arena_segv(int sig, siginfo_t* si, void*)
{
    auto& a = arena();
    auto addr = reinterpret_cast<unsigned char*>(si->si_addr);
    // Any fault while the code under test runs is its access: inside the reservation it is an
    // out-of-bounds offset relative to the frame, outside it a wild pointer (wrapped or
    // overflowed arithmetic on hostile values) - reported the same way, with the (huge or
    // negative) distance from the frame, so that the run stays a classifiable outcome.
    if(a.armed)
    {
        a.pending.kind = Out::OOB;
        a.pending.off = addr - a.frame;
        a.armed = 0;
        siglongjmp(a.jb, 1);
    }
    // not ours: die with the default action so the worker's death is visible
    signal(sig, SIG_DFL);
    raise(sig);
}

inline void arena_vtalrm(int)
{
    auto& a = arena();
    if(a.armed)
    {
        a.pending.kind = Out::TIMEOUT;
        a.armed = 0;
        siglongjmp(a.jb, 1);
    }
}

inline void arena_init()
{
    auto& a = arena();
    if(a.res_begin) return;
    const std::size_t total = kPre + kRw + kPost;
    void* want = reinterpret_cast<void*>(kArenaBase);
    void* m = mmap(want, total, PROT_NONE,
                   MAP_PRIVATE | MAP_ANONYMOUS | MAP_NORESERVE | MAP_FIXED_NOREPLACE, -1, 0);
    if(m == MAP_FAILED)
    {
        m = mmap(nullptr, total, PROT_NONE, MAP_PRIVATE | MAP_ANONYMOUS | MAP_NORESERVE, -1, 0);
    }
    if(m == MAP_FAILED)
    {
        perror("arena mmap");
        _exit(3);
    }
    a.res_begin = static_cast<unsigned char*>(m);
    a.rw_begin = a.res_begin + kPre;
    a.rw_end = a.rw_begin + kRw;
    a.res_end = a.res_begin + total;
    if(mprotect(a.rw_begin, kRw, PROT_READ | PROT_WRITE) != 0)
    {
        perror("arena mprotect");
        _exit(3);
    }
    static unsigned char altstack[1 << 16];
    stack_t ss{};
    ss.ss_sp = altstack;
    ss.ss_size = sizeof altstack;
    sigaltstack(&ss, nullptr);
    struct sigaction sa{};
    sa.sa_sigaction = arena_segv;
    sa.sa_flags = SA_SIGINFO | SA_ONSTACK | SA_NODEFER;
    sigemptyset(&sa.sa_mask);
    sigaction(SIGSEGV, &sa, nullptr);
    sigaction(SIGBUS, &sa, nullptr);
    struct sigaction st{};
    st.sa_handler = arena_vtalrm;
    st.sa_flags = SA_NODEFER;
    sigemptyset(&st.sa_mask);
    sigaction(SIGVTALRM, &st, nullptr);
}

// Every plan starts from the same readable window: what an earlier plan of the same worker left
// below the frame must not be visible to a wild *read* of the code under test (a read below p is
// not a reportable outcome by itself, but the value it returns steers what happens next, and a
// plan has to be a pure function of its text).
inline void arena_reset()
{
    auto& a = arena();
    std::memset(a.rw_begin, 0x5A, kRw);
}

// Place a frame of n bytes followed by `slack` accessible bytes; the byte
// after p+n+slack is protected. kCanary bytes before p are canaries.
inline unsigned char* arena_place(std::size_t n, std::size_t slack = 0)
{
    auto& a = arena();
    if(n + slack + kCanary + 64 > kRw)
    {
        fprintf(stderr, "arena_place: frame too large\n");
        _exit(3);
    }
    unsigned char* p = a.rw_end - slack - n;
    a.frame = p;
    return p;
}

inline void set_cpu_budget_ms(long ms)
{
    itimerval it{};
    it.it_value.tv_sec = ms / 1000;
    it.it_value.tv_usec = (ms % 1000) * 1000;
    // keep firing (every 200 ms) so that a tick that lands outside a guarded
    // region is not lost
    if(ms) it.it_interval.tv_usec = 200000;
    setitimer(ITIMER_VIRTUAL, &it, nullptr);
}

[[noreturn]] inline void report_handler(const char* expr, const char* func, long line)
{
    auto& a = arena();
    if(!a.armed)
    {
        fprintf(stderr, "sbepp assertion outside a guarded op: %s in %s:%ld\n", expr, func, line);
        fflush(stderr);
        _exit(4);
    }
    a.pending.kind = Out::HANDLER;
    snprintf(a.pending.expr, sizeof a.pending.expr, "%s", expr);
    snprintf(a.pending.func, sizeof a.pending.func, "%s", func);
    a.pending.line = line;
    a.armed = 0;
    siglongjmp(a.jb, 1);
}

// Run f() with the arena armed. f must only touch trivially destructible
// state that the caller does not rely on after a non-DONE outcome.
template<typename F>
__attribute__((noinline)) Outcome guarded(F&& f, long cpu_ms = 0)
{
    auto& a = arena();
    a.pending = Outcome{};
    if(sigsetjmp(a.jb, 0) == 0) // handlers run with SA_NODEFER and an empty mask: nothing to restore
    {
        if(cpu_ms) set_cpu_budget_ms(cpu_ms);
        a.armed = 1;
        f();
        a.armed = 0;
        if(cpu_ms) set_cpu_budget_ms(0);
        a.pending.kind = Out::DONE;
    }
    else
    {
        if(cpu_ms) set_cpu_budget_ms(0);
    }
    return a.pending;
}
} // namespace sim
