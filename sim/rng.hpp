// Seeded PRNG for the simulator: splitmix64 -> xoshiro256**, with labelled
// forks so that one component's draws never shift another's.
#pragma once
#include <cstdint>
#include <cstring>
#include <string>

namespace sim
{
inline std::uint64_t splitmix64(std::uint64_t& x)
{
    std::uint64_t z = (x += 0x9e3779b97f4a7c15ULL);
    z = (z ^ (z >> 30)) * 0xbf58476d1ce4e5b9ULL;
    z = (z ^ (z >> 27)) * 0x94d049bb133111ebULL;
    return z ^ (z >> 31);
}

inline std::uint64_t fnv1a(const void* p, std::size_t n, std::uint64_t h = 0xcbf29ce484222325ULL)
{
    auto b = static_cast<const unsigned char*>(p);
    for(std::size_t i = 0; i < n; i++)
    {
        h ^= b[i];
        h *= 0x100000001b3ULL;
    }
    return h;
}

inline std::uint64_t mix64(std::uint64_t a, std::uint64_t b)
{
    std::uint64_t x = a ^ (b + 0x9e3779b97f4a7c15ULL + (a << 6) + (a >> 2));
    return splitmix64(x);
}

class Rng
{
public:
    explicit Rng(std::uint64_t seed = 1)
    {
        std::uint64_t x = seed;
        for(auto& v : s) v = splitmix64(x);
    }
    Rng fork(const char* label) const
    {
        std::uint64_t h = fnv1a(label, std::strlen(label));
        return Rng(mix64(mix64(s[0], s[1]) ^ mix64(s[2], s[3]), h));
    }
    Rng fork(std::uint64_t k) const
    {
        return Rng(mix64(mix64(s[0], s[1]) ^ mix64(s[2], s[3]), k));
    }
    std::uint64_t next()
    {
        auto rotl = [](std::uint64_t x, int k) { return (x << k) | (x >> (64 - k)); };
        const std::uint64_t result = rotl(s[1] * 5, 7) * 9;
        const std::uint64_t t = s[1] << 17;
        s[2] ^= s[0];
        s[3] ^= s[1];
        s[1] ^= s[2];
        s[0] ^= s[3];
        s[2] ^= t;
        s[3] = rotl(s[3], 45);
        return result;
    }
    // uniform in [0, n) (n > 0); modulo bias is irrelevant here
    std::uint64_t below(std::uint64_t n) { return n ? next() % n : 0; }
    // uniform in [lo, hi]
    std::uint64_t range(std::uint64_t lo, std::uint64_t hi) { return lo + below(hi - lo + 1); }
    bool chance(unsigned num, unsigned den) { return below(den) < num; }

private:
    std::uint64_t s[4];
};

struct Hasher
{
    std::uint64_t h = 0xcbf29ce484222325ULL;
    void add(const void* p, std::size_t n) { h = fnv1a(p, n, h); }
    void add(std::uint64_t v) { add(&v, sizeof v); }
    void add(const std::string& s)
    {
        add(s.data(), s.size());
        add(std::uint64_t(s.size()));
    }
};
} // namespace sim
